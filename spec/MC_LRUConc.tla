------------------------------- MODULE MC_LRUConc -------------------------------
(* Exhaustive configurations + outcome emission for the concurrent container model (C17).     *)
EXTENDS LRUConc, Json, IOUtils

MCKeys == {"a", "b", "c"}
MCValues == 1..200
MCMaxSizes == 0..2
A(op, k) == [op |-> op, k |-> k]
\* operations a thread may invoke
MCAlphabet == {A("get", "a"), A("get", "b"), A("has", "a"), A("set", "a"), A("set", "b"), A("set", "c"),
               A("del", "a"), A("clear", L!NONE), A("len", L!NONE), A("keys", L!NONE)}
MCAlphabetSmall == {A("get", "a"), A("set", "a"), A("set", "b"), A("del", "a"), A("clear", L!NONE), A("len", L!NONE)}
\* the pool manager's use of the container: get-or-create / clear, no dispose_func
MCAlphabetPM == {A("goc", "a"), A("goc", "b"), A("goc", "c"), A("clear", L!NONE), A("len", L!NONE)}
MCAlphabetMix == {A("goc", "a"), A("goc", "b"), A("get", "a"), A("set", "a"), A("del", "a"), A("clear", L!NONE)}
MCInitConts == {<<>>, <<L!Entry("a", 101)>>, <<L!Entry("a", 101), L!Entry("b", 102)>>, <<L!Entry("b", 102), L!Entry("a", 101)>>}
\* quick tier: every method, hit and miss, eviction and replacement, in a state space of ~10^5
MCAlphabetQ == {A("get", "a"), A("set", "a"), A("set", "b"), A("del", "a"), A("clear", L!NONE)}
MCInitQ == {<<>>, <<L!Entry("a", 101)>>, <<L!Entry("a", 101), L!Entry("b", 102)>>}
MCMaxSizesQ == {1, 2}
MCInitPM == {<<>>, <<L!Entry("a", 101)>>}
NoDev == {}
DevClearWithoutLock == {"ClearWithoutLock"}
\* the smallest programs that expose an unguarded clear(): a lookup of a cached key racing clear()
MCAlphabetClear == {A("get", "a"), A("has", "a"), A("clear", L!NONE)}
MCAlphabetClearPM == {A("goc", "a"), A("clear", L!NONE)}
MCInitA == {<<L!Entry("a", 101)>>}
T2 == {1, 2}
T3 == {1, 2, 3}

\* ACTION_CONSTRAINT: at every terminal state print the program (operations per thread), the
\* results and the final container.  The set of lines sharing a program is the set of outcomes
\* the model allows for that program over all interleavings.
Emit == AllDone => PrintT(<<"OUT", ToJson([m |-> maxsize, init |-> initc, done |-> done, final |-> cont,
                                          disposed |-> dset])>>)
=============================================================================
