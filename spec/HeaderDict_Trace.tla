---------------------------- MODULE HeaderDict_Trace ----------------------------
(* Batch trace validation for C16: every trace is a sequence of operations performed on real  *)
(* HTTPHeaderDict objects together with everything the caller can observe afterwards.  The     *)
(* monitor replays each operation with HeaderDict!Apply and compares the logged observations   *)
(* with the reference's observation functions.  It is total: a mismatch prints a VERDICT line   *)
(* naming the failing clause and the monitor moves on to the next trace.                        *)
EXTENDS HeaderDict, Json, IOUtils, TLCExt

Traces == JsonDeserialize(IOEnv.TRACE_FILE)

TrSources == <<
  [kind |-> "dict", pairs |-> << <<"A", "1">>, <<"b", "2">> >>],
  [kind |-> "list", pairs |-> << <<"a", "1">>, <<"A", "2">>, <<"Set-Cookie", "x, y">> >>],
  [kind |-> "kw",   pairs |-> << <<"b", "">> >>],
  [kind |-> "list", pairs |-> <<>>]
>>
TrNames == {"A", "a", "B", "b", "Set-Cookie", "set-cookie"}
TrValues == {"1", "2", "x, y", ""}
QueryNames == TrNames \cup {"SET-COOKIE", "C"}

VARIABLES tid, l
tvars == <<objs, live, depth, last, tid, l>>

TInit == /\ objs = [i \in 1..NObj |-> <<>>] /\ live = {1} /\ depth = 0
         /\ last = [op |-> "init", i |-> 1, n |-> NONE, v |-> NONE, j |-> 0, src |-> 0, res |-> NONE]
         /\ tid = 1 /\ l = 1

\* Does the logged observation of one object equal the reference's?  Returns the failing clause.
ObsClause(o, ob) ==
    IF ob.lines # LinesOf(o) THEN "PerLineIteration"
    ELSE IF ob.merged # MergedOf(o) THEN "MergedIteration"
    ELSE IF ob.keys # [x \in 1..Len(o) |-> o[x].d] THEN "NameCasingAndOrder"
    ELSE IF ob.len # Len(o) THEN "Length"
    ELSE IF \E n \in QueryNames : ob.look[n] # Get(o, n) THEN "LookupAnyCasing"
    ELSE IF \E n \in QueryNames : ob.lists[n] # GetList(o, n) THEN "GetList"
    ELSE IF \E n \in QueryNames : ob.has[n] # Has(o, n) THEN "Membership"
    \* equality with sources built from the object's own content: its lines, its merged view, its lines with every
    \* name's casing flipped (equal); its lines plus one more line (not equal)
    ELSE IF ob.eqsrc # [lines |-> TRUE, merged |-> TRUE, caseflip |-> TRUE, extra |-> FALSE] THEN "EqualityWithSource"
    ELSE "ok"

EqRef(o1, o2) == {<<o1[x].k, Join(o1[x].vs)>> : x \in 1..Len(o1)} = {<<o2[x].k, Join(o2[x].vs)>> : x \in 1..Len(o2)}

Clause(r, e) ==
    IF e.res # r.res THEN "ReturnValue"
    ELSE IF e.live # [x \in 1..NObj |-> x \in r.live] THEN "Live"
    ELSE IF \E x \in r.live : ObsClause(r.objs[x], e.obs[x]) # "ok"
         THEN ObsClause(r.objs[CHOOSE x \in r.live : ObsClause(r.objs[x], e.obs[x]) # "ok"],
                        e.obs[CHOOSE x \in r.live : ObsClause(r.objs[x], e.obs[x]) # "ok"])
    ELSE IF \E x, y \in r.live : e.eq[x][y] # EqRef(r.objs[x], r.objs[y]) THEN "Equality"
    ELSE "ok"

NextTrace == /\ tid' = tid + 1 /\ l' = 1
             /\ objs' = [i \in 1..NObj |-> <<>>] /\ live' = {1} /\ depth' = 0 /\ UNCHANGED last

TNext ==
    /\ tid <= Len(Traces)
    /\ IF l > Len(Traces[tid])
       THEN PrintT(<<"VERDICT", tid, l, "ok">>) /\ NextTrace
       ELSE LET e == Traces[tid][l]
                r == Apply(objs, live, e)
                c == Clause(r, e) IN
            IF c = "ok"
            THEN /\ objs' = r.objs /\ live' = r.live /\ depth' = depth + 1 /\ l' = l + 1 /\ tid' = tid
                 /\ UNCHANGED last
            ELSE PrintT(<<"VERDICT", tid, l, c>>) /\ NextTrace

TSpec == TInit /\ [][TNext]_tvars
=============================================================================
