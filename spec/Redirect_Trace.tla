---------------------------- MODULE Redirect_Trace ----------------------------
(* Batch trace validation for C05 / C06.  A trace is what was observed when the real urllib3      *)
(* executed one scenario over the in-memory network:                                              *)
(*   cfg      the caller's configuration (as emitted by MC_Redirect)                              *)
(*   hops     the 3xx answers the scripted servers give to the 1st, 2nd, ... request              *)
(*   wire     every request that reached the network, in order: who received it (scheme, host and  *)
(*            port as dialled, or as written in an absolute-form target when a forwarding proxy    *)
(*            received it), method, path segments, header lines (lower-cased name, value), digest  *)
(*   dialed   every address a connection was opened to                                            *)
(*   outcome  what the caller got                                                                 *)
(*   exp      the Model's expected observations for the scenario (absent for free-running drivers) *)
(* The monitor is total.  It feeds the requests one by one into the Rules automaton of Redirect   *)
(* (MsgClause / GAfter / EndClause -- the operators TLC checked the Model against) and prints     *)
(* <<"VERDICT", tid, position, clause>>: "ok", the failing clause, or "drift:<what>" when every   *)
(* clause holds but the observation differs from the Model's expectation.  Origin equality and    *)
(* reference resolution are the spec's own (Origin, Resolve); nothing urllib3 computed is trusted. *)
EXTENDS Redirect, Json, IOUtils, TLCExt

Traces == JsonDeserialize(IOEnv.TRACE_FILE)

VARIABLES tid, l
tvars == <<vars, tid, l>>

TrCfgSet == {}
TrPlanSet(c) == {}
TrHopAlphabet(c, u) == {}

Range(s) == {s[i] : i \in 1..Len(s)}
FixPol(p) == [kind |-> p.kind, total |-> p.total, redirect |-> p.redirect, raise |-> p.raise, remove |-> Range(p.remove), rmsp |-> p.rmsp,
              rmct |-> p.rmct]
FixCfg(c) == [c EXCEPT !.reqpol = FixPol(@), !.clipol = FixPol(@)]

\* header names arrive lower-cased (an encoding step of the harness); their classification is the spec's
KindOfName(n) == CASE n = "authorization" -> "auth" [] n = "cookie" -> "cookie" [] n = "proxy-authorization" -> "pauth"
                   [] n = "x-custom" -> "xcustom" [] n = "x-other" -> "xother" [] n = "content-type" -> "ctype"
                   [] n = "content-length" -> "clen" [] n = "transfer-encoding" -> "te"
                   [] OTHER -> "auto"
RECURSIVE LineVals(_, _)
LineVals(lines, k) == IF lines = <<>> THEN <<>>
                      ELSE (IF KindOfName(lines[1][1]) = k THEN <<lines[1][2]>> ELSE <<>>) \o LineVals(Tail(lines), k)
ObsHdrs(lines) == {<<k, Join(LineVals(lines, k))>> : k \in {KindOfName(lines[i][1]) : i \in 1..Len(lines)} \ {"auto"}}
ObsMsg(w) == [url |-> [scheme |-> w.url.scheme, host |-> w.url.host, port |-> w.url.port, path |-> w.url.path],
              method |-> w.method, body |-> w.body, hdrs |-> ObsHdrs(w.hdrs)]

\* the answer that led to request number i (i >= 2), and the last answer received after n requests
HopBefore(t, i) == IF i = 1 THEN NoHop ELSE t.hops[i - 1]
LastAnswer(t) == IF Len(t.wire) <= Len(t.hops) THEN t.hops[Len(t.wire)] ELSE OK200

\* a bare pool opens connections to its own host only
DialClause(t, c) ==
    IF c.client = "pool" /\ \E i \in 1..Len(t.dialed) :
           <<LowerHost(t.dialed[i][1]), t.dialed[i][2]>> # <<Origin(c.start)[2], Origin(c.start)[3]>>
    THEN "SingleHostRefuses" ELSE "ok"

\* soft comparison with the Model's expected observations
ExpMsgEq(t, x, m) ==
    LET e == x.msg IN
    /\ Origin(e.url) = Origin(m.url) /\ e.url.path = m.url.path /\ e.method = m.method
    /\ (IF e.body = "none" THEN "none" ELSE t.payload) = m.body
    /\ (Range(e.hdrs) = m.hdrs \/ Range(x.alt) = m.hdrs)    \* as the code is, or as the design without recorded deviations
Drift(t) ==
    IF ~t.hasexp THEN "ok"
    ELSE IF Len(t.exp.wire) # Len(t.wire) THEN "drift:requests"
    ELSE IF \E i \in 1..Len(t.wire) : ~ExpMsgEq(t, t.exp.wire[i], ObsMsg(t.wire[i]))
         THEN "drift:request-" \o ToString(CHOOSE i \in 1..Len(t.wire) : ~ExpMsgEq(t, t.exp.wire[i], ObsMsg(t.wire[i])))
    ELSE IF t.exp.outcome # t.outcome THEN "drift:outcome"
    ELSE "ok"

\* input class of the recorded finding D10: a forwarding ProxyManager, and every redirect followed so far
\* pointed at the proxy's own origin (the pool that is asked "same host?" is the proxy's)
RECURSIVE ExpUrlAt(_, _, _)
ExpUrlAt(t, c, i) == IF i = 1 THEN c.start ELSE Resolve(ExpUrlAt(t, c, i - 1), t.hops[i - 1])
ProxyOwnOriginOnly(t, c, i) == c.client = "proxy" /\ \A j \in 2..i : SameOrigin(ExpUrlAt(t, c, j), c.proxy)

G0Of(i) == IF i <= Len(Traces) THEN G0(FixCfg(Traces[i].cfg)) ELSE G0(FixCfg(Traces[1].cfg))

TInit == /\ tid = 1 /\ l = 1 /\ g = G0Of(1) /\ bad = "ok"
         /\ cfg = 0 /\ plan = 0 /\ pc = 0 /\ eff = 0 /\ cur = 0 /\ curform = 0 /\ method = 0 /\ body = 0 /\ hdrs = 0
         /\ resp = 0 /\ outcome = 0 /\ hist = 0 /\ wire = 0 /\ hdrsAlt = 0 /\ allpx = 0

NextTrace == tid' = tid + 1 /\ l' = 1 /\ g' = G0Of(tid + 1)
Verdict(c) == PrintT(<<"VERDICT", tid, l, c>>) /\ NextTrace

TNext ==
    /\ tid <= Len(Traces)
    /\ LET t == Traces[tid]
           c == FixCfg(t.cfg) IN
       IF l <= Len(t.wire)
       THEN IF l >= 2 /\ l - 1 > Len(t.hops) THEN Verdict("RequestAfterFinalAnswer")
            ELSE LET m == ObsMsg(t.wire[l])
                     cl == MsgClause(c, g, HopBefore(t, l), m, t.payload, Range(t.skip)) IN
                 IF cl = "ok" THEN /\ g' = GAfter(c, g, HopBefore(t, l), m) /\ l' = l + 1 /\ tid' = tid
                 ELSE Verdict(IF cl = "SensitiveStripped" /\ ProxyOwnOriginOnly(t, c, l) THEN cl \o "@forwarding-proxy-own-origin" ELSE cl)
       ELSE IF Len(t.wire) = 0 THEN Verdict("NoRequestObserved")
       ELSE LET e == EndClause(c, g, LastAnswer(t), t.outcome, Range(t.skip))
                d == DialClause(t, c) IN
            Verdict(IF e # "ok" THEN e ELSE IF d # "ok" THEN d ELSE Drift(t))
    /\ UNCHANGED <<cfg, plan, pc, eff, cur, curform, method, body, hdrs, resp, outcome, hist, wire, bad, hdrsAlt, allpx>>

TSpec == TInit /\ [][TNext]_tvars
=============================================================================
