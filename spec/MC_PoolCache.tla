----------------------------- MODULE MC_PoolCache -----------------------------
(* Exhaustive configurations + scenario emission for the pool cache model (C17).               *)
EXTENDS PoolCache, Json, IOUtils

O2 == {"a", "b"}
O3 == {"a", "b", "c"}
O4 == {"a", "b", "c", "d"}
NP12 == {1, 2}
NP1 == {1}
NP2 == {2}
T1 == {1}
T2 == {1, 2}
T3 == {1, 2, 3}
MKeepRead == {"keep", "read"}
MKeep == {"keep"}
MRead == {"read"}
NoDev == {}
DevCreateOutsideLock == {"CreateOutsideLock"}
DevCloseOnEvict == {"CloseOnEvict"}
DevEvictMostRecent == {"EvictMostRecent"}
DevNoRefresh == {"NoRefresh"}
DevNoEvict == {"NoEvict"}
DevKeepEvicted == {"KeepEvicted"}
DevCloseWithoutRemoving == {"CloseWithoutRemoving"}

\* origins are interchangeable: explore / emit only behaviours that name them in first-use order
KIdx(k) == CASE k = "a" -> 1 [] k = "b" -> 2 [] k = "c" -> 3 [] k = "d" -> 4 [] OTHER -> 0
UsedKeys == {pool[p].k : p \in {q \in Ids : pool[q].st # "none"}} \cup {th[t].k : t \in {u \in Threads : th[u].pc # "idle"}}
Canonical == \A t \in Threads : (th'[t].pc = "lock" /\ th[t].pc = "idle")
                 => KIdx(th'[t].k) <= Cardinality(UsedKeys \ {NONE}) + 1

\* scenario emission (pattern B / C): one line per transition that appends to the history; with
\* VIEW View every transition of the collapsed graph is printed once, each with an access path
\* (the history of the state it starts from); without VIEW every path is printed at its end.
EmitTransitions == (hist' # hist) => PrintT(<<"SC", ToJson([np |-> np, hist |-> hist'])>>)
Terminal == nops = MaxOps /\ Quiet /\ ~HasGarbage
EmitPaths == Terminal' => PrintT(<<"SC", ToJson([np |-> np, hist |-> hist'])>>)
=============================================================================
