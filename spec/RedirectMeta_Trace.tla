---------------------------- MODULE RedirectMeta_Trace ----------------------------
(* Batch trace validation for the growth module RedirectMeta.  A trace is a Redirect_Trace trace    *)
(* (cfg, hops, wire, dialed, outcome, exp) plus `meta`: what the caller received (response.url,     *)
(* response.retries counters and history, error attributes, the caller's Retry objects before and   *)
(* after) and `expmeta`: the Model's expectation.  One step per trace prints                        *)
(*   "VERDICT|tid|hard|meta|drift"   (one string: TLC wraps long tuples)                             *)
(* hard  = first failing clause of the C05/C06 Rules (MsgClause / EndClause / DialClause) or "ok"    *)
(* meta  = MetaClause on the observed metadata against the observed wire log ("ok", clause or        *)
(*         clause@class for the classes of the named deviations)                                    *)
(* drift = "ok" or what differs from the Model's expected requests / metadata                        *)
EXTENDS Redirect_Trace, RedirectMeta

RECURSIVE Walk(_, _, _, _)
Walk(t, c, gg, i) ==
    IF i > Len(t.wire)
    THEN (IF Len(t.wire) = 0 THEN "NoRequestObserved"
          ELSE LET e == EndClause(c, gg, LastAnswer(t), t.outcome, Range(t.skip)) IN IF e # "ok" THEN e ELSE DialClause(t, c))
    ELSE IF i >= 2 /\ i - 1 > Len(t.hops) THEN "RequestAfterFinalAnswer"
    ELSE LET m == ObsMsg(t.wire[i])
             cl == MsgClause(c, gg, HopBefore(t, i), m, t.payload, Range(t.skip)) IN
         IF cl # "ok" THEN cl ELSE Walk(t, c, GAfter(c, gg, HopBefore(t, i), m), i + 1)

ObsWire(t) == [i \in 1..Len(t.wire) |-> ObsMsg(t.wire[i])]
FixLoc(x) == Loc(x.form, x.scheme, x.host, x.port, x.path)
FixEntry(e) == [method |-> e.method, url |-> FixLoc(e.url), error |-> e.error, status |-> e.status, loc |-> FixLoc(e.loc)]
FixMeta(M) == [M EXCEPT !.url = FixLoc(@), !.eurl = FixLoc(@), !.hist = [i \in 1..Len(M.hist) |-> FixEntry(M.hist[i])]]

\* an error's pool as (scheme, host, port): a pool created without a port reports none -- the scheme's default
PoolOrigin(p) == IF p[1] = "" THEN <<"", "", 0>> ELSE <<p[1], LowerHost(p[2]), IF p[3] = 0 THEN DefaultPort(p[1]) ELSE p[3]>>
\* the caller-visible strings are compared up to host letter case / default port (abs) and exactly otherwise
LocEq(a, b) == IF a.form = "abs" /\ b.form = "abs" THEN Origin(a) = Origin(b) /\ a.path = b.path
               ELSE a.form = b.form /\ LowerHost(a.host) = LowerHost(b.host) /\ a.port = b.port /\ a.path = b.path
EntryEq(a, b) == a.method = b.method /\ a.status = b.status /\ a.error = b.error /\ LocEq(a.url, b.url) /\ LocEq(a.loc, b.loc)
MetaDrift(t) ==
    LET o == FixMeta(t.meta)
        e == FixMeta(t.expmeta) IN
    IF Drift(t) # "ok" THEN Drift(t)
    ELSE IF o.hasretries # e.hasretries THEN "drift:meta-retries-presence"
    ELSE IF Len(o.hist) # Len(e.hist) THEN "drift:meta-history-length"
    ELSE IF \E i \in 1..Len(o.hist) : ~EntryEq(o.hist[i], e.hist[i])
         THEN "drift:meta-history-entry-" \o ToString(CHOOSE i \in 1..Len(o.hist) : ~EntryEq(o.hist[i], e.hist[i]))
    ELSE IF ~LocEq(o.url, e.url) THEN "drift:meta-response-url"
    ELSE IF o.total # e.total \/ o.redirect # e.redirect THEN "drift:meta-counters"
    ELSE IF ~LocEq(o.eurl, e.eurl) \/ PoolOrigin(o.epool) # PoolOrigin(e.epool) \/ o.reason # e.reason THEN "drift:meta-error-attributes"
    ELSE "ok"

MTInit == TInit /\ mhist = 0 /\ lastreq = 0
MTNext ==
    /\ tid <= Len(Traces)
    /\ LET t == Traces[tid]
           c == FixCfg(t.cfg)
           hard == Walk(t, c, G0(c), 1)
           M == FixMeta(t.meta)
           meta == IF hard = "ok" THEN MetaClause(c, t.hops, ObsWire(t), t.outcome, [M EXCEPT !.epool = PoolOrigin(@)]) ELSE "skipped"
       IN PrintT("VERDICT|" \o ToString(tid) \o "|" \o hard \o "|" \o meta \o "|" \o (IF hard = "ok" THEN MetaDrift(t) ELSE "skipped"))
    /\ tid' = tid + 1
    /\ UNCHANGED <<cfg, plan, pc, eff, cur, curform, method, body, hdrs, resp, outcome, hist, wire, g, bad, hdrsAlt, allpx, l, mhist, lastreq>>
MTSpec == MTInit /\ [][MTNext]_<<tvars, mhist, lastreq>>
=============================================================================
