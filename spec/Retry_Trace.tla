---------------------------- MODULE Retry_Trace ----------------------------
(* Batch trace validation for C04 (code -> spec).                                              *)
(*                                                                                             *)
(* Input: a JSON array of traces recorded from real runs of HTTPConnectionPool.urlopen over    *)
(* the in-memory network.  Each trace = [cfg (the caller's choice), seq (the outcomes the      *)
(* scripted environment really applied: ground truth), ev (the recorded events: connection     *)
(* attempts, wire messages seen by the scripted peer, injected fault stages, scripted replies, *)
(* sleeps, final outcome)].                                                                    *)
(*                                                                                             *)
(* Per trace two verdicts, printed on one VERDICT line; the monitor is total (it never stops   *)
(* at a bad trace):                                                                            *)
(*   Rules   the SAME Observe / FirstFailing operators that TLC checks on the Model in stage 1 *)
(*           are folded over the recorded events; the first failing clause is named (hard).    *)
(*   Model   the SAME step operators (DeriveFn .. ReturnFn) are folded over the recorded       *)
(*           outcome sequence and the predicted events compared with the recorded ones:         *)
(*           "conforms" or "drift" with the position of the first mismatch (soft).              *)
EXTENDS Retry, Json, IOUtils

Traces == JsonDeserialize(IOEnv.TRACE_FILE)
Nothing == {}            \* the trace spec does not use Cfgs / KnownDefects of the Model

VARIABLES tid, l
tvars == <<cfg, m, trail, evs, ob, tid, l>>

TInit == /\ cfg = <<>> /\ m = M0 /\ trail = <<>> /\ evs = <<>> /\ ob = Ob0
         /\ tid = 1 /\ l = 1

\* ---------------------------------------------------------------- Model refinement (fold)
RECURSIVE RunModel(_, _, _, _, _)
RunModel(c, mm, seq, acc, defects) ==
    IF mm.pc = "done" THEN acc
    ELSE IF mm.pc = "attempt"
         THEN IF seq = <<>> THEN Append(acc, [E0 EXCEPT !.ev = "more"])      \* the Model would try again
              ELSE LET r == AttemptFn(c, mm, Head(seq)) IN RunModel(c, r.m, Tail(seq), acc \o r.ev, defects)
         ELSE LET r == StepFn(c, mm, defects) IN RunModel(c, r.m, seq, acc \o r.ev, defects)

EvMatch(me, re) ==
    /\ me.ev = re.ev
    /\ CASE me.ev = "att"   -> me.newconn = re.newconn
         [] me.ev = "msg"   -> me.method = re.method /\ me.form = re.form
         [] me.ev = "fault" -> me.stage = re.stage /\ me.kind = re.kind
         [] me.ev = "reply" -> me.kind = re.kind /\ me.status = re.status /\ me.ra = re.ra
         [] me.ev = "sleep" -> me.lo <= re.lo /\ re.hi <= me.hi       \* jitter: predicted interval
         [] me.ev = "end"   -> me.kind = re.kind /\ me.status = re.status /\ me.fam = re.fam /\ me.rt = re.rt
         [] OTHER -> FALSE
\* 0 = the sequences match, else the first position where they do not
FirstMismatch(mes, res) ==
    LET n == Min(Len(mes), Len(res))
        bad == {i \in 1..n : ~EvMatch(mes[i], res[i])}
    IN IF bad # {} THEN CHOOSE i \in bad : \A j \in bad : i <= j
       ELSE IF Len(mes) # Len(res) THEN n + 1 ELSE 0
ModelVerdict(T) ==
    LET d0 == FirstMismatch(RunModel(T.cfg, M0, T.seq, <<>>, {}), T.ev) IN
    IF d0 = 0 THEN [v |-> "conforms", pos |-> 0] ELSE [v |-> "drift", pos |-> d0]

\* ---------------------------------------------------------------- Rules monitor
NextTrace == /\ tid' = tid + 1 /\ l' = 1 /\ ob' = Ob0 /\ UNCHANGED <<cfg, m, trail, evs>>
Verdict(T, pos, clause, o) ==
    LET mv == ModelVerdict(T) IN
    PrintT(<<"VERDICT", tid, pos, clause, mv.v, mv.pos>>)

TNext ==
    /\ tid <= Len(Traces)
    /\ LET T == Traces[tid]
           p == Policy(T.cfg)
       IN IF l > Len(T.ev)
          THEN Verdict(T, l, IF ob.ended THEN "ok" ELSE "Terminates", ob) /\ NextTrace
          ELSE LET e == T.ev[l]
                   o2 == Observe(p, T.cfg.method, ob, e)
                   cl == IF e.ev = "end" /\ e.kind = "runaway" THEN "Terminates"
                         ELSE FirstFailing(p, T.cfg.method, o2)
               IN IF cl = "ok"
                  THEN ob' = o2 /\ l' = l + 1 /\ tid' = tid /\ UNCHANGED <<cfg, m, trail, evs>>
                  ELSE Verdict(T, l, cl, o2) /\ NextTrace

TSpec == TInit /\ [][TNext]_tvars
=============================================================================
