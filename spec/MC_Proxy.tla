------------------------------- MODULE MC_Proxy -------------------------------
(* Constants, sharding and scenario emission for Proxy.tla (C09).                             *)
(* A scenario is one finished behaviour: configuration + the environment's choices (CONNECT   *)
(* replies in order, exchanges after which the peer closed, redirects it answered) + the log the model expects the    *)
(* two parties and the caller to record.                                                      *)
EXTENDS Proxy, Json

CONSTANTS ShardK, ShardS, EmitOn

PH_All  == {{}, {"pauth"}, {"pauth", "ptag"}}
PH_Full == {{"pauth", "ptag"}}
RH_All  == {{}, {"rauth", "rtag"}}
RH_Full == {{"rauth", "rtag"}}

Ix(x, seq) == CHOOSE i \in 1..Len(seq) : seq[i] = x
ShardOf(c, n) == ( Ix(c.ps, <<"http", "https">>) + 2 * Ix(c.ds, <<"http", "https">>) + (IF c.fwd THEN 4 ELSE 0)
                 + 3 * Ix(c.hk, <<"name", "ipv4", "ipv6">>) + 5 * Ix(c.port, <<"default", "explicit">>)
                 + 7 * Ix(c.pcert, <<"ok", "untrusted", "wrongname">>)
                 + 11 * Ix(c.ocert, <<"ok", "untrusted", "wrongname", "proxyname">>)
                 + 13 * Cardinality(c.ph) + 17 * Cardinality(c.rh) + 19 * c.retries + 23 * n ) % ShardK

MCInit == Init /\ ShardOf(cfg, nreq) = ShardS
MCSpec == MCInit /\ [][Next]_vars

\* Evaluated once per distinct state: prints every finished behaviour exactly once.
Emit == (EmitOn /\ Done) =>
           PrintT(<<"SC", ToJson([cfg |-> cfg, nreq |-> nreq, replies |-> script.replies, closes |-> script.closes, redirs |-> script.redirs,
                                   log |-> log])>>)
=============================================================================
