----------------------------- MODULE SSLTransport -----------------------------
(* urllib3/util/ssltransport.py - the TLS-in-TLS transport that carries the tunnelled request   *)
(* to an HTTPS destination through an HTTPS proxy (growth module serving C09).                   *)
(*                                                                                               *)
(* One vocabulary: the event log written by vh/ssltransport.py while the REAL SSLTransport runs  *)
(* over a shim socket against a real OpenSSL server side:                                        *)
(*    op    an API call starts (init / send / sendall / recv / read / recv_into / mf_read /      *)
(*          unwrap / close / settimeout / gettimeout), n = its size argument                     *)
(*    call  one call of the SSL engine inside _ssl_io_loop (do_handshake / read / write /        *)
(*          unwrap) and how it came back: ret (n bytes) / want_read / eof (SSLEOFError) / ...    *)
(*    ssend / srecv / sclose / ssettimeout / sgettimeout   operations on the underlying socket   *)
(*    env   the peer: writes one record of n plaintext bytes, sends close_notify, closes (eof)   *)
(*    srvgot  plaintext the peer's application received                                          *)
(*    ret   the API call ends: ok (kind bytes/int/none, n, data) or exc                          *)
(* Plaintext is position coded (byte = base + offset mod 251) so order / loss / duplication are  *)
(* decided here, not in the harness.                                                             *)
(*                                                                                               *)
(*   RULES  Off_<Clause>(c, log, i): position i offends.  Same operators = INVARIANTs of the     *)
(*          model below = verdict of SSLTransport_Trace.tla on recorded logs.                    *)
(*   MODEL  the MemoryBIO pump, one action per step of _ssl_io_loop: Call (engine), Flush        *)
(*          (outgoing.read + socket.sendall), Recv (socket.recv -> incoming.write / write_eof),  *)
(*          Return; ciphertext is a sequence of records made of abstract units (header, one per  *)
(*          plaintext byte) and the environment chooses how many units every socket.recv         *)
(*          returns, when the peer writes / closes, and where a timeout strikes.                 *)
EXTENDS Naturals, Sequences, FiniteSets, TLC

CONSTANTS HsRecs,        \* records of the server's handshake flight (measured on the real OpenSSL)
          Suppress,      \* subset of BOOLEAN: suppress_ragged_eofs
          SrvSizes,      \* plaintext sizes of the records the peer may write
          MaxSrvWrites,  \* how many records the peer writes at most
          ReadSizes,     \* size arguments of recv / read
          IntoSizes,     \* nbytes arguments of recv_into (buffer of BufLen bytes)
          MfSizes,       \* size arguments of makefile("rb").read
          SendSizes,     \* sizes of send / sendall
          Segs,          \* how many units one socket.recv may return (99 = everything in flight)
          HsSegs,        \* the same during the handshake
          Misc,          \* which of "unwrap", "settimeout", "gettimeout" the caller uses
          ReadFns,       \* which of recv / read / recv_into / mf_read the caller uses
          IdleEnvAt,     \* after which API calls (1 = __init__) the peer may act while the client is idle;
                         \* it may always act while the client is blocked in socket.recv
          MaxOps,        \* API calls after __init__
          MaxTimeouts,   \* injected timeouts per scenario
          Bug            \* "none" or a named deviation

BufLen == 4
CBase == 101             \* first byte value of the client's stream
M == 251
Reads == {"recv", "read", "recv_into", "mf_read"}
Blank == [ev |-> "", op |-> 0, fn |-> "", res |-> "", n |-> 0, data |-> <<>>, exc |-> "", v |-> 0 - 1, inp |-> 0,
          outp |-> 0, ineof |-> FALSE, plain |-> 0, kind |-> ""]
Bytes(base, lo, n) == [j \in 1..n |-> (base + lo + j - 1) % M]

-----------------------------------------------------------------------------
(* RULES                                                                                       *)

Idx(log) == 1..Len(log)
SumTo(log, i, F(_)) == LET s[j \in 0..i] == IF j = 0 THEN 0 ELSE F(log[j]) + s[j - 1] IN s[i]
IsReadRet(e) == e.ev = "ret" /\ e.fn \in Reads /\ e.res = "ok"
DeliveredF(e) == IF IsReadRet(e) THEN Len(e.data) ELSE 0
WrittenF(e) == IF e.ev = "env" /\ e.fn = "write" /\ e.res # "refused" THEN e.n ELSE 0
SrvGotF(e) == IF e.ev = "srvgot" /\ e.res = "data" THEN Len(e.data) ELSE 0
OfferedF(e) == IF e.ev = "op" /\ e.fn \in {"send", "sendall"} THEN e.n ELSE 0
Delivered(log, i) == SumTo(log, i, DeliveredF)       \* plaintext bytes handed to the caller by log[1..i]
Written(log, i) == SumTo(log, i, WrittenF)           \* plaintext bytes the peer wrote
SrvGot(log, i) == SumTo(log, i, SrvGotF)
Offered(log, i) == SumTo(log, i, OfferedF)
\* the "op" event that opened the call position i belongs to
OpStart(log, i) == CHOOSE j \in 1..i : log[j].ev = "op" /\ log[j].op = log[i].op
SameOp(log, i, j) == log[i].op = log[j].op
Exists(log, lo, hi, P(_)) == \E j \in lo..hi : P(log[j])

\* the engine call before position i within the same API call (0: none)
PrevCall(log, i) == LET S == {j \in 1..(i - 1) : log[j].ev = "call" /\ SameOp(log, i, j)} IN
                    IF S = {} THEN 0 ELSE CHOOSE j \in S : \A x \in S : x <= j

\* (hard for C09) what goes to the underlying socket is ciphertext: no run of the caller's plaintext
Off_NoPlaintextOnWire(c, log, i) == log[i].ev = "ssend" /\ log[i].plain >= 6

\* bytes written by one side come out at the other side exactly once, in order
Off_PlaintextInOrderNoLossNoDup(c, log, i) ==
    LET e == log[i] IN
    \/ /\ IsReadRet(e) /\ e.data # <<>>
       /\ \/ e.data # Bytes(0, Delivered(log, i - 1), Len(e.data))
          \/ Delivered(log, i) > Written(log, i)
          \/ e.n # Len(e.data)
    \/ /\ e.ev = "srvgot" /\ e.res = "data"
       /\ \/ e.data # Bytes(CBase, SrvGot(log, i - 1), Len(e.data))
          \/ SrvGot(log, i) > Offered(log, i)
    \* what send()/sendall() reported as written has reached the peer's application, all of it
    \/ /\ e.ev = "ret" /\ e.fn = "send" /\ e.res = "ok"
       /\ \/ e.n > log[OpStart(log, i)].n \/ (e.n = 0 /\ log[OpStart(log, i)].n > 0)
          \/ SrvGot(log, i) # Offered(log, i) - (log[OpStart(log, i)].n - e.n)
    \/ e.ev = "ret" /\ e.fn = "sendall" /\ e.res = "ok" /\ SrvGot(log, i) # Offered(log, i)
    \* a read that reports "end of stream" after a clean close has delivered everything before it
    \/ /\ IsReadRet(e) /\ e.data = <<>> /\ log[OpStart(log, i)].n > 0
       /\ Exists(log, 1, i, LAMBDA x : x.ev = "env" /\ x.fn = "close_notify")
       /\ ~Exists(log, 1, i, LAMBDA x : x.ev = "srecv" /\ x.res = "eof")
       /\ Delivered(log, i) # Written(log, i)

\* every turn of _ssl_io_loop returns, raises, or moves bytes: a WANT_READ turn is followed by a socket
\* read that yields bytes or EOF, EOF is seen at most once per call and never answered by another
\* WANT_READ, and no call spins (BusyLoop) or waits for bytes nobody will send (Stall)
Off_NoBusyLoop(c, log, i) ==
    LET e == log[i] IN
    \/ e.ev = "ret" /\ e.exc \in {"BusyLoop", "Stall"}
    \/ /\ e.ev = "call" /\ PrevCall(log, i) # 0 /\ log[PrevCall(log, i)].res = "want_read"
       /\ ~\E m \in (PrevCall(log, i) + 1)..(i - 1) : log[m].ev = "srecv" /\ (log[m].res = "eof" \/ log[m].n > 0)
    \/ e.ev = "ret" /\ e.res = "ok" /\ PrevCall(log, i) # 0 /\ log[PrevCall(log, i)].res = "want_read"
    \/ /\ e.ev = "call" /\ e.res = "want_read"
       /\ \E j \in 1..(i - 1) : log[j].ev = "srecv" /\ log[j].res = "eof"
    \/ /\ e.ev = "srecv" /\ e.res = "eof"
       /\ \E j \in 1..(i - 1) : log[j].ev = "srecv" /\ log[j].res = "eof" /\ SameOp(log, i, j)

\* clean close_notify -> b"" / 0; ragged EOF -> SSLError unless suppressed; an "end of stream" or an
\* SSL EOF error is never reported without the socket really having reached EOF / the peer having closed
Off_EOFHandling(c, log, i) ==
    LET e == log[i]
        sawEof == Exists(log, 1, i, LAMBDA x : x.ev = "srecv" /\ x.res = "eof")
        sawClose == Exists(log, 1, i, LAMBDA x : x.ev = "env" /\ x.fn = "close_notify") IN
    \/ /\ IsReadRet(e) /\ e.data = <<>> /\ e.n = 0 /\ log[OpStart(log, i)].n > 0
       /\ ~(sawClose \/ (sawEof /\ c.suppress))
    \/ /\ IsReadRet(e) /\ e.data = <<>> /\ log[OpStart(log, i)].n > 0
       /\ sawEof /\ ~sawClose /\ ~c.suppress
    \/ e.ev = "ret" /\ e.exc \in {"SSLEOFError", "SSLZeroReturnError"} /\ ~(sawEof \/ sawClose)

\* close() closes the underlying socket exactly once and does nothing else; nothing touches the socket
\* after it was closed; unwrap() lets its close_notify leave before it waits for the peer's
Off_CloseOrder(c, log, i) ==
    LET e == log[i] IN
    \/ e.ev = "sclose" /\ log[OpStart(log, i)].fn # "close"
    \/ /\ e.ev = "ret" /\ e.fn = "close"
       /\ Cardinality({j \in OpStart(log, i)..i : log[j].ev = "sclose"}) # 1
    \/ e.ev \in {"ssend", "srecv"} /\ Exists(log, 1, i - 1, LAMBDA x : x.ev = "sclose")
    \/ /\ e.ev = "srecv" /\ log[OpStart(log, i)].fn = "unwrap"
       /\ ~\E j \in OpStart(log, i)..(i - 1) : log[j].ev = "ssend" /\ log[j].n > 0

\* settimeout / gettimeout delegate to the socket; a timeout of the socket ends the call with the timeout
Off_TimeoutPropagates(c, log, i) ==
    LET e == log[i] IN
    \/ /\ e.ev = "ret" /\ e.fn = "settimeout"
       /\ {log[j].v : j \in {m \in OpStart(log, i)..i : log[m].ev = "ssettimeout"}} # {log[OpStart(log, i)].n}
    \/ /\ e.ev = "ret" /\ e.fn = "gettimeout"
       /\ {log[j].v : j \in {m \in OpStart(log, i)..i : log[m].ev = "sgettimeout"}} # {e.n}
    \/ /\ i > 1 /\ log[i - 1].ev \in {"srecv", "ssend"} /\ log[i - 1].res = "timeout"
       /\ ~(e.ev = "ret" /\ e.exc \in {"TimeoutError", "timeout"})

AnyOff(c, log, i) == \/ Off_NoPlaintextOnWire(c, log, i) \/ Off_PlaintextInOrderNoLossNoDup(c, log, i)
                     \/ Off_NoBusyLoop(c, log, i) \/ Off_EOFHandling(c, log, i) \/ Off_CloseOrder(c, log, i)
                     \/ Off_TimeoutPropagates(c, log, i)
FirstClause(c, log, i) ==
    IF Off_NoPlaintextOnWire(c, log, i) THEN "NoPlaintextOnWire"
    ELSE IF Off_PlaintextInOrderNoLossNoDup(c, log, i) THEN "PlaintextInOrderNoLossNoDup"
    ELSE IF Off_NoBusyLoop(c, log, i) THEN "NoBusyLoop"
    ELSE IF Off_EOFHandling(c, log, i) THEN "EOFHandling"
    ELSE IF Off_CloseOrder(c, log, i) THEN "CloseOrder"
    ELSE "TimeoutPropagates"
\* Total verdict: earliest offending position and its clause (ties: the order above), or <<0, "ok">>
Verdict(c, log) ==
    LET bad == {i \in Idx(log) : AnyOff(c, log, i)} IN
    IF bad = {} THEN <<0, "ok">>
    ELSE LET p == CHOOSE x \in bad : \A y \in bad : x <= y IN <<p, FirstClause(c, log, p)>>

-----------------------------------------------------------------------------
(* MODEL                                                                                       *)

VARIABLES cfg, log, pc,
          cur,       \* the API call in progress: [fn, n, f (engine function), want (size given to the engine)]
          last,      \* how the last engine call came back: [res, n]
          nop,       \* API calls so far
          wire,      \* records in flight to the client socket (not yet completely received)
          wpart,     \* units of Head(wire) the client socket already received
          incFull,   \* complete records in the `incoming` BIO the engine has not consumed yet
          incEof,    \* incoming.write_eof() was called
          sockEof,   \* the peer closed its side (recv returns b"" once nothing is in flight)
          outgoing,  \* messages in the `outgoing` BIO: ch | fin | alert | data (n plaintext bytes)
          hs,        \* handshake stage: 0 nothing sent, 1 ClientHello out, 2 done (3: the engine has hit a ragged EOF)
          pend,      \* decrypted, not yet delivered plaintext of the current record: <<lo, hi>> (offsets)
          taken,     \* plaintext offset up to which the engine has handed bytes to SSLTransport
          mfbuf,     \* bytes the BufferedReader of makefile() holds: <<lo, hi>>
          mfUsed, rxClosed, txClosed, srvHs, srvWritten, srvWrites, srvClosedTx, cliSent, srvGot,
          closed, stimeout, tmo, broken,
          sched      \* the schedule: what the harness has to do to re-create this behaviour
vars == <<cfg, log, pc, cur, last, nop, wire, wpart, incFull, incEof, sockEof, outgoing, hs, pend, taken, mfbuf,
          mfUsed, rxClosed, txClosed, srvHs, srvWritten, srvWrites, srvClosedTx, cliSent, srvGot, closed, stimeout,
          tmo, broken, sched>>

NoCall == [fn |-> "", n |-> 0, f |-> "", want |-> 0]
Units(r) == IF r.kind = "data" THEN r.p + 1 ELSE 2
RECURSIVE Avail(_)
Avail(w) == IF w = <<>> THEN 0 ELSE Units(Head(w)) + Avail(Tail(w))
\* move u units from the wire into the incoming BIO: <<wire', wpart', incFull'>>
RECURSIVE Deliver(_, _, _, _)
Deliver(u, w, part, full) ==
    IF u = 0 \/ w = <<>> THEN <<w, part, full>>
    ELSE IF part + 1 = Units(Head(w)) THEN Deliver(u - 1, Tail(w), 0, Append(full, Head(w)))
    ELSE Deliver(u - 1, w, part + 1, full)

Init == /\ cfg \in [suppress : Suppress]
        /\ log = <<>> /\ pc = "start" /\ cur = NoCall /\ last = [res |-> "", n |-> 0] /\ nop = 0
        /\ wire = <<>> /\ wpart = 0 /\ incFull = <<>> /\ incEof = FALSE /\ sockEof = FALSE /\ outgoing = <<>>
        /\ hs = 0 /\ pend = <<0, 0>> /\ taken = 0 /\ mfbuf = <<0, 0>> /\ mfUsed = FALSE /\ rxClosed = FALSE
        /\ txClosed = FALSE /\ srvHs = FALSE /\ srvWritten = 0 /\ srvWrites = 0 /\ srvClosedTx = FALSE
        /\ cliSent = 0 /\ srvGot = 0 /\ closed = 0 /\ stimeout = 0 - 1 /\ tmo = 0 /\ broken = FALSE /\ sched = <<>>

E(r) == [r EXCEPT !.op = nop]
OpItem(fn, n) == [t |-> "op", fn |-> fn, n |-> n, a |-> "", u |-> 0, between |-> FALSE]
EnvItem(a, n, btw) == [t |-> "env", fn |-> "", n |-> n, a |-> a, u |-> 0, between |-> btw]
RecvItem(u) == [t |-> "recv", fn |-> "", n |-> 0, a |-> "", u |-> u, between |-> FALSE]
TmoItem == [t |-> "timeout", fn |-> "", n |-> 0, a |-> "", u |-> 0, between |-> FALSE]

\* ---- API calls.  Begin(fn, n, f, want): log the op and enter the I/O loop
Begin(fn, n, f, want) ==
    /\ nop' = nop + 1
    /\ cur' = [fn |-> fn, n |-> n, f |-> f, want |-> want]
    /\ log' = Append(log, [Blank EXCEPT !.ev = "op", !.op = nop + 1, !.fn = fn, !.n = n])
    /\ sched' = Append(sched, OpItem(fn, n))
    /\ pc' = "call"

Usable == pc = "idle" /\ closed = 0 /\ ~broken
Budget == nop <= MaxOps                     \* __init__ was call number 1

NewTransport ==                           \* SSLTransport(sock, ctx, server_hostname): handshake in __init__
    /\ pc = "start" /\ Begin("init", 0, "do_handshake", 0)
    /\ UNCHANGED <<cfg, last, wire, wpart, incFull, incEof, sockEof, outgoing, hs, pend, taken, mfbuf, mfUsed,
                   rxClosed, txClosed, srvHs, srvWritten, srvWrites, srvClosedTx, cliSent, srvGot, closed, stimeout,
                   tmo, broken>>

Send(fn, n) ==                            \* send / sendall -> sslobj.write
    /\ Usable /\ Budget /\ ~txClosed /\ ~incEof            \* (an engine that has seen EOF refuses to write)
    /\ fn \in {"send", "sendall"} /\ Begin(fn, n, "write", n)
    /\ UNCHANGED <<cfg, last, wire, wpart, incFull, incEof, sockEof, outgoing, hs, pend, taken, mfbuf, mfUsed,
                   rxClosed, txClosed, srvHs, srvWritten, srvWrites, srvClosedTx, cliSent, srvGot, closed, stimeout,
                   tmo, broken>>

\* recv(n) / read(n) -> sslobj.read(n);  recv_into(buf, nbytes) -> sslobj.read(nbytes, buf), where the
\* engine treats nbytes = 0 as "the whole buffer";  makefile("rb").read(n) -> recv_into on a big buffer
Read(fn, n) ==
    /\ Usable /\ Budget /\ fn \in ReadFns
    /\ \/ fn \in {"recv", "read"} /\ n \in ReadSizes /\ ~mfUsed /\ Begin(fn, n, "read", n) /\ UNCHANGED <<mfUsed, mfbuf>>
       \/ fn = "recv_into" /\ n \in IntoSizes /\ ~mfUsed
            /\ Begin(fn, n, "read", IF n = 0 THEN BufLen ELSE n) /\ UNCHANGED <<mfUsed, mfbuf>>
       \/ fn = "mf_read" /\ n \in MfSizes /\ mfbuf[2] - mfbuf[1] < n /\ Begin(fn, n, "read", 8192) /\ mfUsed' = TRUE
            /\ mfbuf' = IF mfUsed THEN mfbuf ELSE <<taken, taken>>     \* makefile(): the reader starts empty, here
    /\ UNCHANGED <<cfg, last, wire, wpart, incFull, incEof, sockEof, outgoing, hs, pend, taken,
                   rxClosed, txClosed, srvHs, srvWritten, srvWrites, srvClosedTx, cliSent, srvGot, closed, stimeout,
                   tmo, broken>>

MfBuffered(n) ==                          \* BufferedReader.read(n) served from its buffer: no I/O at all
    /\ Usable /\ Budget /\ "mf_read" \in ReadFns /\ n \in MfSizes /\ mfbuf[2] - mfbuf[1] >= n /\ n > 0
    /\ nop' = nop + 1 /\ sched' = Append(sched, OpItem("mf_read", n))
    /\ log' = log \o << [Blank EXCEPT !.ev = "op", !.op = nop + 1, !.fn = "mf_read", !.n = n],
                        [Blank EXCEPT !.ev = "ret", !.op = nop + 1, !.fn = "mf_read", !.res = "ok", !.kind = "bytes",
                                      !.n = n, !.data = Bytes(0, mfbuf[1], n)] >>
    /\ mfbuf' = <<mfbuf[1] + n, mfbuf[2]>>
    /\ UNCHANGED <<cfg, pc, cur, last, wire, wpart, incFull, incEof, sockEof, outgoing, hs, pend, taken, mfUsed,
                   rxClosed, txClosed, srvHs, srvWritten, srvWrites, srvClosedTx, cliSent, srvGot, closed, stimeout, tmo,
                   broken>>

Unwrap ==                                 \* unwrap() -> sslobj.unwrap; only once everything was read
    /\ Usable /\ Budget /\ "unwrap" \in Misc /\ ~txClosed /\ ~incEof /\ pend[1] = pend[2] /\ incFull = <<>> /\ wire = <<>> /\ wpart = 0
    /\ Begin("unwrap", 0, "unwrap", 0)
    /\ UNCHANGED <<cfg, last, wire, wpart, incFull, incEof, sockEof, outgoing, hs, pend, taken, mfbuf, mfUsed,
                   rxClosed, txClosed, srvHs, srvWritten, srvWrites, srvClosedTx, cliSent, srvGot, closed, stimeout,
                   tmo, broken>>

\* calls that never enter the I/O loop: close(), settimeout(v), gettimeout()
Immediate(fn, n, evs, kind, rn) ==
    /\ nop' = nop + 1
    /\ log' = log \o << [Blank EXCEPT !.ev = "op", !.op = nop + 1, !.fn = fn, !.n = n] >>
                   \o [j \in 1..Len(evs) |-> [evs[j] EXCEPT !.op = nop + 1]]
                   \o << [Blank EXCEPT !.ev = "ret", !.op = nop + 1, !.fn = fn, !.res = "ok", !.kind = kind, !.n = rn] >>
    /\ sched' = Append(sched, OpItem(fn, n))
Close ==
    /\ pc = "idle" /\ closed = 0
    /\ Immediate("close", 0, IF Bug = "close_twice" THEN << [Blank EXCEPT !.ev = "sclose"], [Blank EXCEPT !.ev = "sclose"] >>
                             ELSE << [Blank EXCEPT !.ev = "sclose"] >>, "none", 0)
    /\ closed' = 1
    /\ UNCHANGED <<cfg, pc, cur, last, wire, wpart, incFull, incEof, sockEof, outgoing, hs, pend, taken, mfbuf, mfUsed,
                   rxClosed, txClosed, srvHs, srvWritten, srvWrites, srvClosedTx, cliSent, srvGot, stimeout, tmo,
                   broken>>
SetTimeout(v) ==
    /\ Usable /\ Budget /\ "settimeout" \in Misc /\ stimeout # v
    /\ Immediate("settimeout", v, << [Blank EXCEPT !.ev = "ssettimeout", !.v = IF Bug = "timeout_dropped" THEN 0 - 1 ELSE v] >>,
                 "none", 0)
    /\ stimeout' = v
    /\ UNCHANGED <<cfg, pc, cur, last, wire, wpart, incFull, incEof, sockEof, outgoing, hs, pend, taken, mfbuf, mfUsed,
                   rxClosed, txClosed, srvHs, srvWritten, srvWrites, srvClosedTx, cliSent, srvGot, closed, tmo, broken>>
GetTimeout ==
    /\ Usable /\ Budget /\ "gettimeout" \in Misc /\ stimeout >= 0
    /\ Immediate("gettimeout", 0, << [Blank EXCEPT !.ev = "sgettimeout", !.v = stimeout] >>, "int", stimeout)
    /\ UNCHANGED <<cfg, pc, cur, last, wire, wpart, incFull, incEof, sockEof, outgoing, hs, pend, taken, mfbuf, mfUsed,
                   rxClosed, txClosed, srvHs, srvWritten, srvWrites, srvClosedTx, cliSent, srvGot, closed, stimeout,
                   tmo, broken>>

Msg(m, n) == [m |-> m, n |-> n]               \* what the engine puts into `outgoing`: ch / fin / alert / data(n)

\* ---- _ssl_io_loop, step 1: call the engine
CallEv(res, n) == E([Blank EXCEPT !.ev = "call", !.fn = cur.f, !.res = res, !.n = n])
Came(res, n) == last' = [res |-> res, n |-> n] /\ log' = Append(log, CallEv(res, n))

HandshakeCall ==
    /\ UNCHANGED <<pend, taken, rxClosed, txClosed, cliSent>>
    /\ IF hs = 0 THEN outgoing' = Append(outgoing, Msg("ch", 0)) /\ hs' = 1 /\ incFull' = incFull /\ Came("want_read", 0)
       ELSE IF Len(incFull) >= HsRecs
            THEN /\ outgoing' = Append(outgoing, Msg("fin", 0)) /\ hs' = 2
                 /\ incFull' = SubSeq(incFull, HsRecs + 1, Len(incFull)) /\ Came("ret", 0)
       ELSE IF incEof THEN UNCHANGED <<outgoing, hs, incFull>> /\ Came("eof", 0)
       ELSE UNCHANGED <<outgoing, hs, incFull>> /\ Came("want_read", 0)

WriteCall ==
    /\ outgoing' = Append(outgoing, Msg("data", cur.want)) /\ cliSent' = cliSent + cur.want
    /\ Came("ret", cur.want)
    /\ UNCHANGED <<hs, incFull, pend, taken, rxClosed, txClosed>>

\* (on a ragged EOF OpenSSL queues a fatal alert in `outgoing`; _ssl_io_loop re-raises without flushing, so the
\*  alert only leaves with the flush of some later call)
ReadCall ==
    /\ UNCHANGED <<txClosed, cliSent>>
    /\ LET eofNow == cur.want # 0 /\ pend[1] = pend[2] /\ incFull = <<>> /\ ~rxClosed /\ incEof IN
       /\ outgoing' = IF eofNow /\ hs = 2 THEN Append(outgoing, Msg("fatal", 0)) ELSE outgoing
       /\ hs' = IF eofNow THEN 3 ELSE hs
    /\ IF cur.want = 0 THEN UNCHANGED <<incFull, pend, taken, rxClosed>> /\ Came("ret", 0)   \* read(0): nothing to do
       ELSE IF pend[1] < pend[2]                                          \* rest of the current record
            THEN LET k == IF cur.want < pend[2] - pend[1] THEN cur.want ELSE pend[2] - pend[1] IN
                 /\ pend' = <<pend[1] + k, pend[2]>> /\ taken' = taken + k /\ UNCHANGED <<incFull, rxClosed>>
                 /\ Came("ret", k)
       ELSE IF incFull # <<>> /\ Head(incFull).kind = "data"              \* decrypt the next complete record
            THEN LET r == Head(incFull)
                     k == IF cur.want < r.p THEN cur.want ELSE r.p IN
                 /\ incFull' = Tail(incFull) /\ pend' = <<r.lo + k, r.lo + r.p>> /\ taken' = taken + k
                 /\ rxClosed' = rxClosed /\ Came("ret", k)
       ELSE IF incFull # <<>> /\ Head(incFull).kind = "alert"             \* close_notify
            THEN /\ incFull' = Tail(incFull) /\ rxClosed' = TRUE /\ UNCHANGED <<pend, taken>>
                 /\ IF txClosed THEN Came("zero", 0) ELSE Came("ret", 0)     \* our own close_notify already out
       ELSE IF rxClosed /\ txClosed                                   \* both directions shut down: SSL_ERROR_ZERO_RETURN
            THEN UNCHANGED <<incFull, pend, taken, rxClosed>> /\ Came("zero", 0)
       ELSE IF rxClosed THEN UNCHANGED <<incFull, pend, taken, rxClosed>> /\ Came("ret", 0)
       ELSE IF incEof THEN UNCHANGED <<incFull, pend, taken, rxClosed>> /\ Came("eof", 0)   \* ragged EOF (also mid-record)
       ELSE UNCHANGED <<incFull, pend, taken, rxClosed>> /\ Came("want_read", 0)

UnwrapCall ==
    /\ UNCHANGED <<hs, pend, taken, cliSent>>
    /\ outgoing' = (IF txClosed THEN outgoing ELSE Append(outgoing, Msg("alert", 0))) /\ txClosed' = TRUE
    /\ IF rxClosed \/ (incFull # <<>> /\ Head(incFull).kind = "alert")
       THEN incFull' = (IF rxClosed THEN incFull ELSE Tail(incFull)) /\ rxClosed' = TRUE /\ Came("ret", 0)
       ELSE IF incEof THEN UNCHANGED <<incFull, rxClosed>> /\ Came("eof", 0)
       ELSE UNCHANGED <<incFull, rxClosed>> /\ Came("want_read", 0)

Call ==
    /\ pc = "call"
    /\ CASE cur.f = "do_handshake" -> HandshakeCall
         [] cur.f = "write" -> WriteCall
         [] cur.f = "read" -> ReadCall
         [] cur.f = "unwrap" -> UnwrapCall
    /\ pc' = IF last'.res \in {"eof", "zero"} THEN "return" ELSE "flush"   \* any SSLError but WANT_READ/WANT_WRITE is re-raised at once
    /\ UNCHANGED <<cfg, cur, nop, wire, wpart, incEof, sockEof, mfbuf, mfUsed, srvHs, srvWritten, srvWrites,
                   srvClosedTx, srvGot, closed, stimeout, tmo, broken, sched>>

\* ---- step 2: buf = outgoing.read(); socket.sendall(buf) - the peer processes what arrives at once
HsFlight == [j \in 1..HsRecs |-> [kind |-> "hs", lo |-> 0, p |-> 0]]
RECURSIVE DataIn(_)
DataIn(out) == IF out = <<>> THEN 0 ELSE Head(out).n + DataIn(Tail(out))
Has(out, m) == \E j \in 1..Len(out) : out[j].m = m
Flush ==
    /\ pc = "flush"
    /\ LET n == DataIn(outgoing)
           sendev == E([Blank EXCEPT !.ev = "ssend", !.res = "ok", !.n = Len(outgoing),
                                     !.plain = IF Bug = "plaintext_flush" /\ n > 0 THEN 8 ELSE 0])
           gotev == E([Blank EXCEPT !.ev = "srvgot", !.res = "data", !.n = n, !.data = Bytes(CBase, srvGot, n)])
           closeev == E([Blank EXCEPT !.ev = "srvgot", !.res = "close_notify"]) IN
       /\ log' = log \o <<sendev>> \o (IF n > 0 /\ Bug # "send_drops" THEN <<gotev>> ELSE <<>>)
                     \o (IF Has(outgoing, "alert") THEN <<closeev>> ELSE <<>>)
       /\ srvGot' = IF Bug = "send_drops" THEN srvGot ELSE srvGot + n
    /\ wire' = IF Has(outgoing, "ch") THEN wire \o HsFlight ELSE wire
    /\ srvHs' = (srvHs \/ Has(outgoing, "fin"))
    /\ outgoing' = <<>>
    /\ pc' = IF last.res = "want_read" THEN "recv" ELSE "return"
    /\ UNCHANGED <<cfg, cur, last, nop, wpart, incFull, incEof, sockEof, hs, pend, taken, mfbuf, mfUsed, rxClosed,
                   txClosed, srvWritten, srvWrites, srvClosedTx, cliSent, closed, stimeout, tmo, broken, sched>>

\* ---- step 3 (WANT_READ): buf = socket.recv(); incoming.write(buf) or incoming.write_eof()
RecvData(s) ==
    /\ pc = "recv" /\ wire # <<>> /\ s \in (IF hs < 2 THEN HsSegs ELSE Segs)
    /\ LET avail == Avail(wire) - wpart
           u == IF s < avail THEN s ELSE avail
           d == Deliver(u, wire, wpart, incFull) IN
       /\ wire' = d[1] /\ wpart' = d[2] /\ incFull' = d[3]
       /\ log' = Append(log, E([Blank EXCEPT !.ev = "srecv", !.res = "data", !.n = u]))
       /\ sched' = Append(sched, RecvItem(u))
    /\ pc' = "call"
    /\ UNCHANGED <<cfg, cur, last, nop, incEof, sockEof, outgoing, hs, pend, taken, mfbuf, mfUsed, rxClosed, txClosed,
                   srvHs, srvWritten, srvWrites, srvClosedTx, cliSent, srvGot, closed, stimeout, tmo, broken>>
RecvEof ==
    /\ pc = "recv" /\ wire = <<>> /\ sockEof
    /\ incEof' = (Bug # "eof_not_fed")
    /\ log' = Append(log, E([Blank EXCEPT !.ev = "srecv", !.res = "eof"]))
    /\ sched' = Append(sched, RecvItem(0))
    /\ pc' = "call"
    /\ UNCHANGED <<cfg, cur, last, nop, wire, wpart, incFull, sockEof, outgoing, hs, pend, taken, mfbuf, mfUsed, rxClosed,
                   txClosed, srvHs, srvWritten, srvWrites, srvClosedTx, cliSent, srvGot, closed, stimeout, tmo, broken>>
RecvTimeout ==
    /\ pc = "recv" /\ wire = <<>> /\ ~sockEof /\ stimeout >= 0 /\ tmo < MaxTimeouts
    /\ tmo' = tmo + 1
    /\ log' = log \o << E([Blank EXCEPT !.ev = "srecv", !.res = "timeout"]),
                        E([Blank EXCEPT !.ev = "ret", !.fn = cur.fn, !.res = "exc", !.exc = "TimeoutError", !.kind = "none"]) >>
    /\ sched' = Append(sched, TmoItem)
    /\ pc' = (IF cur.fn = "init" THEN "done" ELSE "idle")
    /\ cur' = NoCall /\ broken' = (broken \/ cur.fn = "mf_read")
    /\ UNCHANGED <<cfg, last, nop, wire, wpart, incFull, incEof, sockEof, outgoing, hs, pend, taken, mfbuf, mfUsed,
                   rxClosed, txClosed, srvHs, srvWritten, srvWrites, srvClosedTx, cliSent, srvGot, closed, stimeout>>

\* ---- the peer (environment): between API calls, or while the client is blocked in socket.recv
EnvMay == ((pc = "idle" /\ nop \in IdleEnvAt /\ closed = 0) \/ (pc = "recv" /\ wire = <<>>)) /\ ~sockEof
SrvWrite(p) ==
    /\ EnvMay /\ srvHs /\ ~srvClosedTx /\ ~txClosed /\ srvWrites < MaxSrvWrites /\ p \in SrvSizes
    /\ wire' = Append(wire, [kind |-> "data", lo |-> srvWritten, p |-> p])
    /\ srvWritten' = srvWritten + p /\ srvWrites' = srvWrites + 1
    /\ log' = Append(log, E([Blank EXCEPT !.ev = "env", !.fn = "write", !.n = p]))
    /\ sched' = Append(sched, EnvItem("write", p, pc = "idle"))
    /\ UNCHANGED <<cfg, pc, cur, last, nop, wpart, incFull, incEof, sockEof, outgoing, hs, pend, taken, mfbuf, mfUsed,
                   rxClosed, txClosed, srvHs, srvClosedTx, cliSent, srvGot, closed, stimeout, tmo, broken>>
SrvCloseNotify ==
    /\ EnvMay /\ srvHs /\ ~srvClosedTx
    /\ wire' = Append(wire, [kind |-> "alert", lo |-> 0, p |-> 0]) /\ srvClosedTx' = TRUE
    /\ log' = Append(log, E([Blank EXCEPT !.ev = "env", !.fn = "close_notify"]))
    /\ sched' = Append(sched, EnvItem("close_notify", 0, pc = "idle"))
    /\ UNCHANGED <<cfg, pc, cur, last, nop, wpart, incFull, incEof, sockEof, outgoing, hs, pend, taken, mfbuf, mfUsed,
                   rxClosed, txClosed, srvHs, srvWritten, srvWrites, cliSent, srvGot, closed, stimeout, tmo, broken>>
\* the peer closes TCP; with cut = TRUE whatever the client socket has not received yet is lost, which
\* leaves a partial record in the BIO when it strikes mid-record
SrvEof(cut) ==
    /\ EnvMay /\ (cut => wire # <<>>) /\ (pc = "recv" => wire = <<>>)
    /\ sockEof' = TRUE /\ wire' = IF cut THEN <<>> ELSE wire
    /\ log' = Append(log, E([Blank EXCEPT !.ev = "env", !.fn = IF cut THEN "cut" ELSE "eof"]))
    /\ sched' = Append(sched, EnvItem(IF cut THEN "cut" ELSE "close", 0, pc = "idle"))
    /\ UNCHANGED <<cfg, pc, cur, last, nop, wpart, incFull, incEof, outgoing, hs, pend, taken, mfbuf, mfUsed,
                   rxClosed, txClosed, srvHs, srvWritten, srvWrites, srvClosedTx, cliSent, srvGot, closed, stimeout, tmo,
                   broken>>

\* ---- step 4: the loop is left; what the API call gives back
RetEv(res, exc, kind, n, data) ==
    E([Blank EXCEPT !.ev = "ret", !.fn = cur.fn, !.res = res, !.exc = exc, !.kind = kind, !.n = n, !.data = data])
Return ==
    /\ pc = "return"
    /\ IF last.res = "zero" \/ (last.res = "eof" /\ ~(cur.f = "read" /\ cfg.suppress) /\ Bug # "ragged_silent")
       THEN                                                             \* an SSLError leaves the loop
          /\ log' = Append(log, RetEv("exc", IF last.res = "zero" THEN "SSLZeroReturnError" ELSE "SSLEOFError", "none", 0, <<>>))
          /\ pc' = (IF cur.fn = "init" THEN "done" ELSE "idle") /\ cur' = NoCall /\ mfbuf' = mfbuf
          /\ broken' = (broken \/ cur.fn = "mf_read")   \* io.BufferedReader drops what it gathered for a read that raises
       ELSE IF cur.fn \in {"init", "sendall", "unwrap"} THEN
          /\ log' = Append(log, RetEv("ok", "", "none", 0, <<>>)) /\ pc' = "idle" /\ cur' = NoCall /\ mfbuf' = mfbuf /\ broken' = broken
       ELSE IF cur.fn = "send" THEN
          /\ log' = Append(log, RetEv("ok", "", "int", last.n, <<>>)) /\ pc' = "idle" /\ cur' = NoCall /\ mfbuf' = mfbuf /\ broken' = broken
       ELSE IF cur.fn \in {"recv", "read"} THEN       \* _wrap_ssl_read: suppressed ragged EOF gives the int 0
          /\ log' = Append(log, IF last.res = "eof" THEN RetEv("ok", "", "int", 0, <<>>)
                                ELSE RetEv("ok", "", "bytes", last.n, Bytes(0, taken - last.n, last.n)))
          /\ pc' = "idle" /\ cur' = NoCall /\ mfbuf' = mfbuf /\ broken' = broken
       ELSE IF cur.fn = "recv_into" THEN
          /\ log' = Append(log, RetEv("ok", "", "int", last.n, Bytes(0, taken - last.n, last.n)))
          /\ pc' = "idle" /\ cur' = NoCall /\ mfbuf' = mfbuf /\ broken' = broken
       ELSE                                          \* mf_read: BufferedReader.read(n) reads on until n or EOF
          LET buf == <<mfbuf[1], taken>>
              have == buf[2] - buf[1] IN
          IF have < cur.n /\ last.n > 0 /\ last.res = "ret" THEN
             /\ mfbuf' = buf /\ pc' = "call" /\ cur' = cur /\ log' = log /\ broken' = broken
          ELSE LET k == IF cur.n < have THEN cur.n ELSE have
                   k2 == IF Bug = "makefile_drops" /\ k > 1 THEN k - 1 ELSE k IN
             /\ log' = Append(log, RetEv("ok", "", "bytes", k2, Bytes(0, buf[1], k2)))
             /\ mfbuf' = <<buf[1] + k, buf[2]>> /\ pc' = "idle" /\ cur' = NoCall /\ broken' = broken
    /\ UNCHANGED <<cfg, last, nop, wire, wpart, incFull, incEof, sockEof, outgoing, hs, pend, taken, mfUsed, rxClosed,
                   txClosed, srvHs, srvWritten, srvWrites, srvClosedTx, cliSent, srvGot, closed, stimeout, tmo, sched>>

Done == pc = "done" \/ (pc = "idle" /\ closed > 0)

Next == \/ NewTransport
        \/ (\E fn \in {"send", "sendall"}, n \in SendSizes : Send(fn, n))
        \/ (\E fn \in Reads, n \in ReadSizes \cup IntoSizes \cup MfSizes : Read(fn, n))
        \/ (\E n \in MfSizes : MfBuffered(n)) \/ Unwrap \/ Close \/ (\E v \in {50} : SetTimeout(v)) \/ GetTimeout
        \/ Call \/ Flush \/ (\E s \in Segs \cup HsSegs : RecvData(s)) \/ RecvEof \/ RecvTimeout
        \/ (\E p \in SrvSizes : SrvWrite(p)) \/ SrvCloseNotify \/ (\E b \in BOOLEAN : SrvEof(b))
        \/ Return

Spec == Init /\ [][Next]_vars

-----------------------------------------------------------------------------
(* What TLC checks on the model (stage 1)                                                      *)

TypeOK == /\ pc \in {"start", "idle", "call", "flush", "recv", "return", "done"}
          /\ hs \in 0..3 /\ pend[1] <= pend[2] /\ taken <= srvWritten /\ srvGot <= cliSent /\ tmo <= MaxTimeouts
          /\ wpart >= 0 /\ closed \in 0..1

\* the log grows by at most three events per step and Off_ at i reads only log[1..i]
Tail3(l) == {i \in Idx(l) : i >= Len(l) - 2}
NoPlaintextOnWire           == \A i \in Tail3(log) : ~Off_NoPlaintextOnWire(cfg, log, i)
PlaintextInOrderNoLossNoDup == \A i \in Tail3(log) : ~Off_PlaintextInOrderNoLossNoDup(cfg, log, i)
NoBusyLoop                  == \A i \in Tail3(log) : ~Off_NoBusyLoop(cfg, log, i)
EOFHandling                 == \A i \in Tail3(log) : ~Off_EOFHandling(cfg, log, i)
CloseOrder                  == \A i \in Tail3(log) : ~Off_CloseOrder(cfg, log, i)
TimeoutPropagates           == \A i \in Tail3(log) : ~Off_TimeoutPropagates(cfg, log, i)
WholeLogVerdictOk == Done => Verdict(cfg, log) = <<0, "ok">>

\* the engine never holds more than it was given, and nothing is decrypted from a partial record
EngineConservation == /\ taken + (pend[2] - pend[1]) <= srvWritten
                      /\ mfbuf[2] <= taken
\* a client blocked in socket.recv can always be released by the environment (EOF at the latest)
NeverStuck == (pc = "recv" /\ wire = <<>> /\ ~sockEof) => ENABLED (\E b \in BOOLEAN : SrvEof(b))
=============================================================================
