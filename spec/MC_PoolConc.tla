---------------------------- MODULE MC_PoolConc ----------------------------
(* Exhaustive configurations of the concurrent pool model (C02) and emission of every distinct     *)
(* critical-event ordering together with the observations the model expects for it.                *)
EXTENDS PoolConc, Json, IOUtils

\* enough connection objects for every attempt to create one
MCMaxConn == NThreads * Reqs * (MaxFails + 1)

\* Partial-order reduction for EMISSION runs only (never for the stage-1 checks): thread-local steps
\* commute with everything, so they are taken before any critical event fires; and of two adjacent
\* independent critical events of different threads only the order "smaller thread first" is kept
\* (the harness canonicalises what is left the same way, vh/c02.py: canonical()).
AtLocal(p) == \/ Pc(p) \in {"g4", "send", "recv", "fin", "resp", "rel", "rc", "p4", "pend", "end"}
              \/ p \in Threads /\ Pc(p) = "idle" /\ loc[p].left > 0
PtrKinds == {"test", "load", "swap"}
QKinds == {"qget", "qput"}
Indep(a, b) == /\ a[1] # b[1]
               /\ ~(a[2] \in PtrKinds /\ b[2] \in PtrKinds /\ "swap" \in {a[2], b[2]})
               /\ ~(a[2] \in QKinds /\ b[2] \in QKinds)
Reduce == hist' # hist =>
            /\ \A p \in Procs : ~AtLocal(p)
            /\ Len(hist) > 0 => ~(Indep(hist[Len(hist)], hist'[Len(hist')]) /\ hist'[Len(hist')][1] < hist[Len(hist)][1])

\* ACTION_CONSTRAINT (emission runs, KeepHist = TRUE): when a behaviour ends - the pool object is
\* dropped after quiescence, or everybody who is left is parked in a checkout - print the ordering of
\* critical events (<<thread, kind>>), the outcomes the environment chose per attempt, and what the
\* model expects the harness to observe on the real code for this ordering.
Terminal == \/ dropped' /\ ~dropped
            \/ Hung(Obs)' /\ ~Hung(Obs)
Emit == Terminal =>
          PrintT(<<"ORD", ToJson([hist |-> hist', script |-> script', res |-> res',
                                  stuck |-> Obs'.waiting, hung |-> Hung(Obs)', closed |-> (ptr' = "closed"),
                                  qlen |-> Len(queue), nconn |-> fresh' - 1])>>)
=============================================================================
