---------------------------- MODULE MC_PoolConc ----------------------------
(* Exhaustive configurations of the concurrent pool model (C02) and emission of every distinct     *)
(* critical-event ordering together with the observations the model expects for it.                *)
EXTENDS PoolConc, Json, IOUtils

\* enough connection objects for every attempt to create one
MCMaxConn == NThreads * Reqs * (MaxFails + 1)

\* ACTION_CONSTRAINT (emission runs, KeepHist = TRUE): when a behaviour ends - the pool object is
\* dropped after quiescence, or everybody who is left is parked in a checkout - print the ordering of
\* critical events (<<thread, kind>>), the outcomes the environment chose per attempt, and what the
\* model expects the harness to observe on the real code for this ordering.
Terminal == \/ dropped' /\ ~dropped
            \/ Hung(Obs)' /\ ~Hung(Obs)
Emit == Terminal =>
          PrintT(<<"ORD", ToJson([hist |-> hist', script |-> script', res |-> res',
                                  stuck |-> Obs'.waiting, hung |-> Hung(Obs)', closed |-> (ptr' = "closed"),
                                  qlen |-> Len(queue), nconn |-> fresh' - 1])>>)
=============================================================================
