"""Recon: RecentlyUsedContainer vs reference LRU (sequential, exhaustive to length 6) + PoolManager cache basics."""
import sys, itertools, collections, gc, socket
sys.path.insert(0, "/repo/src")
from urllib3._collections import RecentlyUsedContainer
import urllib3, urllib3.util.connection as uc
KEYS = ["k1", "k2", "k3", "k4"]
class Ref:
    def __init__(self, maxsize): self.m = maxsize; self.d = collections.OrderedDict(); self.disposed = []
    def get(self, k):
        v = self.d.pop(k); self.d[k] = v; return v
    def set(self, k, v):
        if k in self.d: self.disposed.append(self.d.pop(k)); self.d[k] = v
        else:
            self.d[k] = v
            if len(self.d) > self.m: self.disposed.append(self.d.popitem(last=False)[1])
    def delete(self, k): self.disposed.append(self.d.pop(k))
    def clear(self): self.disposed.extend(self.d.values()); self.d.clear()
ops = [("get", k) for k in KEYS] + [("set", k) for k in KEYS] + [("del", k) for k in KEYS[:2]] + [("clear", None), ("len", None)]
bad = 0; runs = 0
for maxsize in (0, 1, 2, 3):
    for n in range(1, 6):
        for seq in itertools.product(ops, repeat=n):
            if n >= 5 and maxsize in (0, 3): continue
            disposed = []; c = RecentlyUsedContainer(maxsize, dispose_func=disposed.append); r = Ref(maxsize); val = 0
            for op, k in seq:
                val += 1
                try:
                    if op == "get":
                        try: a = c[k]
                        except KeyError: a = KeyError
                        try: b = r.get(k)
                        except KeyError: b = KeyError
                        assert a == b
                    elif op == "set": c[k] = val; r.set(k, val)
                    elif op == "del":
                        try: del c[k]; a = None
                        except KeyError: a = KeyError
                        try: r.delete(k); b = None
                        except KeyError: b = KeyError
                        assert a == b
                    elif op == "clear": c.clear(); r.clear()
                    elif op == "len": assert len(c) == len(r.d)
                    assert c.keys() == set(r.d.keys()) and sorted(disposed) == sorted(r.disposed) and len(c) <= max(maxsize, 0)
                except AssertionError:
                    bad += 1; print("MISMATCH", maxsize, seq); break
            runs += 1
            if bad > 3: break
print("LRU runs", runs, "mismatches", bad)
# PoolManager: bounded, LRU eviction, same key same pool, evicted pool sockets closed after gc
peers = []
def cc(address, timeout=None, source_address=None, socket_options=None):
    a, b = socket.socketpair(); b.sendall(b"HTTP/1.1 200 OK\r\nContent-Length: 2\r\n\r\nok"); peers.append((address, b)); return a
uc.create_connection = cc
def peer_open(b):
    b.setblocking(False)
    try:
        while True:
            if b.recv(65536) == b"": return False
    except BlockingIOError: return True
    finally: b.setblocking(True)
pm = urllib3.PoolManager(num_pools=2)
p1 = pm.connection_from_url("http://a.test"); pm.request("GET", "http://a.test/")
pm.request("GET", "http://b.test/"); pm.request("GET", "http://A.TEST:80/")   # refresh a
print("same pool a:", pm.connection_from_url("http://a.test/x") is p1, "len", len(pm.pools))
pm.request("GET", "http://c.test/")    # evicts b (LRU)
keys = {k.key_host for k in pm.pools.keys()}
print("cached hosts:", keys)
del p1; gc.collect()
print("peer sockets open:", [(a[0], peer_open(b)) for a, b in peers])
