"""Recon: timeouts reaching the socket vs reference arithmetic, virtual clock, direct http pool."""
import sys, socket, itertools, collections
sys.path.insert(0, "/repo/src")
import urllib3, urllib3.util.connection as uc, urllib3.util.timeout as ut
from urllib3.util.timeout import Timeout
from urllib3.exceptions import ReadTimeoutError, ConnectTimeoutError, HTTPError, MaxRetryError
class Clock:
    now = 1000.0
    def monotonic(self): return Clock.now
ut.time = Clock()
ev = []
class VS(socket.socket):
    def settimeout(self, t): ev.append(("settimeout", t)); return super().settimeout(None)
    def sendall(self, d, *a): ev.append(("send",)); return super().sendall(d, *a)
    def recv_into(self, *a, **k):
        if not any(e[0] == "recv" for e in ev): ev.append(("recv",))
        return super().recv_into(*a, **k)
DUR = {"d": 0}
def cc(address, timeout=ut._DEFAULT_TIMEOUT, source_address=None, socket_options=None):
    ev.append(("connect", "DEFAULT" if timeout is ut._DEFAULT_TIMEOUT else timeout))
    d = DUR["d"]
    eff = None if timeout is ut._DEFAULT_TIMEOUT else timeout
    if eff is not None and d >= eff:
        Clock.now += eff; raise socket.timeout("timed out")
    Clock.now += d
    a, b = socket.socketpair(); b.sendall(b"HTTP/1.1 200 OK\r\nConnection: close\r\nContent-Length: 0\r\n\r\n")
    return VS(a.family, a.type, a.proto, fileno=a.detach())
uc.create_connection = cc
U = "unset"
def mk(total, connect, read):
    kw = {}
    if total != U: kw["total"] = total
    if connect != U: kw["connect"] = connect
    if read != U: kw["read"] = read
    return Timeout(**kw)
def ref(total, connect, read, d):
    t = None if total in (U, None) else total
    c = None if connect in (U, None) else connect
    r = None if read in (U, None) else read
    ct = c if t is None else (t if c is None else min(c, t))
    if ct is not None and d >= ct: return ct, "ConnectTimeout"
    rt = r if t is None else (max(0, t - d) if r is None else max(0, min(r, t - d)))
    return ct, rt
vals = [U, None, 0.5, 2, 10]
stats = collections.Counter(); ex = {}
for total, connect, read in itertools.product(vals, repeat=3):
    for d in [0, 0.3, 1, 5, 20]:
        for place in ["pool", "request"]:
            ev.clear(); DUR["d"] = d
            to = mk(total, connect, read)
            if place == "pool":
                pool = urllib3.HTTPConnectionPool("h", 80, timeout=to, retries=False); kw = {}
            else:
                pool = urllib3.HTTPConnectionPool("h", 80, timeout=Timeout(total=77, connect=66, read=55), retries=False); kw = {"timeout": to}
            try:
                r = pool.urlopen("GET", "/", **kw); out = "ok"
            except ReadTimeoutError: out = "ReadTimeout"
            except ConnectTimeoutError: out = "ConnectTimeout"
            except HTTPError as e: out = type(e).__name__
            exp_ct, exp_rt = ref(total, connect, read, d)
            got_ct = [e[1] for e in ev if e[0] == "connect"]
            got_ct = None if got_ct == ["DEFAULT"] else got_ct[0]
            key = None
            if got_ct != exp_ct: key = "CONNECT-TO"
            elif exp_rt == "ConnectTimeout":
                if out != "ConnectTimeout": key = "expected-connect-timeout-got-" + out
            else:
                # last settimeout before first recv = read timeout applied
                idx = [i for i, e in enumerate(ev) if e[0] == "recv"]
                sts = [e[1] for e in ev[:idx[0]] if e[0] == "settimeout"] if idx else []
                if exp_rt == 0:
                    if out != "ReadTimeout" or idx: key = "zero-read-should-raise-without-wait"
                else:
                    if not sts or (sts[-1] is None) != (exp_rt is None) or (exp_rt is not None and abs(sts[-1] - exp_rt) > 1e-9):
                        key = "READ-TO"
            if key: stats[key] += 1; ex.setdefault(key, ((total, connect, read), d, place, ev[:], out, (exp_ct, exp_rt)))
            else: stats["ok"] += 1
for k, v in stats.items(): print(v, k, ex.get(k))
# invalid values
for bad in [0, -1, True, False, "x", float("nan")]:
    for field in ("total", "connect", "read"):
        try: Timeout(**{field: bad}); print("ACCEPTED invalid", field, bad)
        except ValueError: pass
        except Exception as e: print("RAW", field, bad, type(e).__name__)
