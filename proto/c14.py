"""Recon: parse_url totality + agreement with an independent RFC 3986 authority reading + idempotence."""
import sys, itertools, collections, re
sys.path.insert(0, "/repo/src")
from urllib3.util import parse_url
from urllib3.exceptions import LocationParseError
ALPHA = ["a", "/", "?", "#", "\\", "@", ":", "[", "]", "%", ".", "1"]
SCHEME_RE = re.compile(r"^(?:[a-zA-Z][a-zA-Z0-9+-]*:|/)")   # documented scheme-less convention of urllib3
def ref(s):
    """independent reading: returns (has_authority, userinfo, hostport) or None if no authority"""
    t = s
    if not SCHEME_RE.search(t): t = "//" + t
    m = re.match(r"^([a-zA-Z][a-zA-Z0-9+.\-]*):", t)
    rest = t[m.end():] if m else t
    if not rest.startswith("//"): return None
    rest = rest[2:]
    end = len(rest)
    for i, ch in enumerate(rest):
        if ch in "/?#\\": end = i; break
    auth = rest[:end]
    if auth == "": return None
    ui, at, hp = auth.rpartition("@")
    ui = ui if at and ui != "" else None
    # port = after last ':' outside brackets
    if hp.startswith("["):
        rb = hp.find("]")
        host = hp[:rb+1] if rb >= 0 else hp; tail = hp[rb+1:] if rb >= 0 else ""
        port = tail[1:] if tail.startswith(":") else None
    else:
        h, c, p = hp.rpartition(":")
        if c: host, port = h, p
        else: host, port = hp, None
    return (ui, host, port)
stats = collections.Counter(); ex = {}
def check(s):
    try:
        u = parse_url(s)
    except LocationParseError:
        stats["reject"] += 1; return
    except Exception as e:
        stats["RAW:" + type(e).__name__] += 1; ex.setdefault("RAW:" + type(e).__name__, s); return
    stats["ok"] += 1
    r = ref(s)
    if r is None:
        if u.host is not None or u.port is not None or u.auth is not None:
            stats["host-without-authority"] += 1; ex.setdefault("host-without-authority", (s, u))
    else:
        ui, host, port = r
        exp_port = int(port) if port not in (None, "") else None
        if (u.host or "") .lower() != (host or "").lower():
            stats["HOSTDIFF"] += 1; ex.setdefault("HOSTDIFF", (s, u, r))
        if u.port != exp_port:
            stats["PORTDIFF"] += 1; ex.setdefault("PORTDIFF", (s, u, r))
        # userinfo compare modulo percent-encoding normalisation: compare raw when no encodable chars
        if (u.auth is None) != (ui is None):
            stats["AUTHDIFF"] += 1; ex.setdefault("AUTHDIFF", (s, u, r))
    # idempotence
    try:
        u2 = parse_url(u.url)
        if u2 != u:
            stats["NOTIDEMPOTENT"] += 1; ex.setdefault("NOTIDEMPOTENT", (s, u, u2))
    except Exception as e:
        stats["REPARSEFAIL"] += 1; ex.setdefault("REPARSEFAIL", (s, u, type(e).__name__))
for n in range(1, 6):
    for t in itertools.product(ALPHA, repeat=n):
        check("".join(t))
for n in range(0, 5):
    for t in itertools.product(ALPHA, repeat=n):
        check("http://" + "".join(t))
for k, v in sorted(stats.items()): print(v, k, ex.get(k))
print("---- http-only idempotence")
cats = collections.Counter(); exs = {}
for n in range(0, 6):
    for t in itertools.product(ALPHA, repeat=n):
        s = "http://" + "".join(t)
        try: u = parse_url(s)
        except LocationParseError: continue
        try:
            u2 = parse_url(u.url)
        except Exception as e:
            cats["reparse-fail"] += 1; exs.setdefault("reparse-fail", (s, u)); continue
        if u2 != u:
            diff = tuple(f for f, a, b in zip(u._fields, u, u2) if a != b)
            cats[diff] += 1; exs.setdefault(diff, (s, tuple(u), tuple(u2)))
for k, v in cats.items(): print(v, k, exs[k])
