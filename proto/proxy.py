"""Scratch feasibility: recording proxy party (plain or TLS) that also plays the origin inside CONNECT; TLS-in-TLS via MemoryBIO."""
import sys, socket, ssl, threading, tempfile, os, warnings
sys.path.insert(0, "/repo/src")
import urllib3, urllib3.util.connection as uc
import trustme
ca = trustme.CA(); bad_ca = trustme.CA()
proxy_cert = ca.issue_cert("proxy.test"); origin_cert = ca.issue_cert("origin.test")
capath = tempfile.mktemp(suffix=".pem"); ca.cert_pem.write_to_path(capath)
def sctx_for(cert):
    c = ssl.SSLContext(ssl.PROTOCOL_TLS_SERVER); cert.configure_cert(c); return c

class Layer:
    """blocking byte stream interface: recv(n)->bytes, sendall(b)"""
class SockLayer(Layer):
    def __init__(self, s): self.s = s
    def recv(self, n=65536): return self.s.recv(n)
    def sendall(self, b): self.s.sendall(b)
class TLSLayer(Layer):
    """server-side TLS over any Layer using MemoryBIO"""
    def __init__(self, lower, ctx, log):
        self.lower = lower; self.inb = ssl.MemoryBIO(); self.outb = ssl.MemoryBIO()
        self.sni = []
        ctx.sni_callback = lambda sslobj, name, c: self.sni.append(name)
        self.obj = ctx.wrap_bio(self.inb, self.outb, server_side=True)
        self._loop(self.obj.do_handshake)
    def _flush(self):
        d = self.outb.read()
        if d: self.lower.sendall(d)
    def _loop(self, fn, *a):
        while True:
            try:
                r = fn(*a); self._flush(); return r
            except ssl.SSLWantReadError:
                self._flush()
                d = self.lower.recv()
                if not d: self.inb.write_eof()
                else: self.inb.write(d)
    def recv(self, n=65536):
        try: return self._loop(self.obj.read, n)
        except (ssl.SSLZeroReturnError, ssl.SSLEOFError): return b""
    def sendall(self, b): self._loop(self.obj.write, b)

def read_head(layer):
    buf = b""
    while b"\r\n\r\n" not in buf:
        d = layer.recv()
        if not d: return buf, True
        buf += d
    return buf, False

RECORD = {"proxy": [], "origin": [], "sni": []}
def party(sock, proxy_tls, connect_reply=b"HTTP/1.1 200 Connection established\r\n\r\n"):
    try:
        layer = SockLayer(sock)
        if proxy_tls:
            layer = TLSLayer(layer, sctx_for(proxy_cert), RECORD); RECORD["sni"].append(("proxy", layer.sni[:]))
        head, eof = read_head(layer)
        RECORD["proxy"].append(head)
        if head.startswith(b"CONNECT"):
            layer.sendall(connect_reply)
            if not connect_reply.startswith(b"HTTP/1.1 200"): return
            inner = TLSLayer(layer, sctx_for(origin_cert), RECORD); RECORD["sni"].append(("origin", inner.sni[:]))
            while True:
                head, eof = read_head(inner)
                if not head: break
                RECORD["origin"].append(head)
                inner.sendall(b"HTTP/1.1 200 OK\r\nContent-Length: 6\r\n\r\norigin")
        else:
            layer.sendall(b"HTTP/1.1 200 OK\r\nContent-Length: 5\r\n\r\nproxy")
    except Exception as e:
        RECORD.setdefault("party_exc", []).append(repr(e))
    finally:
        pass

def cc_factory(proxy_tls, **kw):
    def cc(address, timeout=None, source_address=None, socket_options=None):
        RECORD.setdefault("dial", []).append(address)
        a, b = socket.socketpair()
        threading.Thread(target=party, args=(b, proxy_tls), kwargs=kw, daemon=True).start()
        return a
    return cc
warnings.simplefilter("error")
for scheme in ("http", "https"):
    for k in RECORD: RECORD[k] = []
    uc.create_connection = cc_factory(scheme == "https")
    pm = urllib3.ProxyManager(f"{scheme}://proxy.test:3128", proxy_headers={"Proxy-Authorization": "Basic abc"}, ca_certs=capath, timeout=3, retries=False)
    r = pm.request("GET", "https://origin.test/secret?x=1", headers={"Authorization": "tok"})
    print(scheme, "proxy ->", r.status, r.data)
    print("   dial:", RECORD["dial"]); print("   proxy saw:", RECORD["proxy"]); print("   origin saw:", RECORD["origin"]); print("   sni:", RECORD["sni"], RECORD.get("party_exc"))
    r = pm.request("GET", "https://origin.test/second")   # reuse tunnel
    print("   second:", r.status, len(RECORD["dial"]), "dials;", "origin saw", len(RECORD["origin"]))
# CONNECT refused
for k in RECORD: RECORD[k] = []
uc.create_connection = cc_factory(False, connect_reply=b"HTTP/1.1 407 Auth\r\nContent-Length: 0\r\n\r\n")
pm = urllib3.ProxyManager("http://proxy.test:3128", ca_certs=capath, timeout=3, retries=False)
try:
    pm.request("GET", "https://origin.test/secret")
except Exception as e: print("refused ->", type(e).__name__, str(e)[:100], "| origin saw", RECORD["origin"])
os.unlink(capath)
