import sys; sys.path.insert(0,"/tmp/exp")
from fakenet import *
import io
import urllib3.util.connection as uc
import urllib3.connectionpool as cp
cp.is_connection_dropped = lambda conn: False
log=[]
R303 = b"HTTP/1.1 303 See Other\r\nLocation: /next\r\nContent-Length: 0\r\n\r\n"
OK = b"HTTP/1.1 200 OK\r\nContent-Length: 2\r\n\r\nok"
Pool, Conn = make_pool([[io.BufferedReader(io.BytesIO(R303)) and R303, OK]], log)
p = Pool("example.com", 80)
body = io.BytesIO(b"hello world")
try:
    r = p.urlopen("POST", "/", body=body)
    print(r.status, r.data)
except Exception as e:
    print("EXC", type(e), e)
for l in log: print(l)
