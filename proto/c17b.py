import sys, socket, gc
sys.path.insert(0, "/repo/src")
import urllib3, urllib3.util.connection as uc
# PoolManager: bounded, LRU eviction, same key same pool, evicted pool sockets closed after gc
peers = []
class VS(socket.socket):
    def sendall(self, d, *a):
        r = super().sendall(d, *a)
        if bytes(d).endswith(b"\r\n\r\n"): self.peer.sendall(b"HTTP/1.1 200 OK\r\nContent-Length: 2\r\n\r\nok")
        return r
def cc(address, timeout=None, source_address=None, socket_options=None):
    a, b = socket.socketpair(); v = VS(a.family, a.type, a.proto, fileno=a.detach()); v.peer = b; peers.append((address, b)); return v
uc.create_connection = cc
def peer_open(b):
    b.setblocking(False)
    try:
        while True:
            if b.recv(65536) == b"": return False
    except BlockingIOError: return True
    finally: b.setblocking(True)
pm = urllib3.PoolManager(num_pools=2)
p1 = pm.connection_from_url("http://a.test"); pm.request("GET", "http://a.test/")
pm.request("GET", "http://b.test/"); pm.request("GET", "http://A.TEST:80/")   # refresh a
print("same pool a:", pm.connection_from_url("http://a.test/x") is p1, "len", len(pm.pools))
pm.request("GET", "http://c.test/")    # evicts b (LRU)
keys = {k.key_host for k in pm.pools.keys()}
print("cached hosts:", keys)
del p1; gc.collect()
print("peer sockets open:", [(a[0], peer_open(b)) for a, b in peers])
