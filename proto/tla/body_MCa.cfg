SPECIFICATION Spec
CONSTANTS L = 6
 Lag = 2
 Amts = {1, 2, 3, 7}
 MaxOps = 4
 KnownDefects = {}
INVARIANT InOrderNoLossNoDup
INVARIANT NothingLeftBehind
CHECK_DEADLOCK FALSE
