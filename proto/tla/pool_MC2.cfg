SPECIFICATION Spec
CONSTANTS Threads = {t1, t2}
 Closers = {}
 MaxSize = 1
 Block = TRUE
 Reqs = 2
 MaxConn = 4
 Streaming = TRUE
 CloseReleases = TRUE
INVARIANT NoDuplicate
INVARIANT ExclusiveUse
INVARIANT NotPooledWhileUsed
INVARIANT BlockBound
INVARIANT SlotsRestored
INVARIANT NoOrphanSocket
INVARIANT ClosedAndDroppedLeavesNothing
CHECK_DEADLOCK FALSE
