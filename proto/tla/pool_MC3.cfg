SPECIFICATION Spec
CONSTANTS Threads = {t1, t2}
 Closers = {k1}
 MaxSize = 1
 Block = TRUE
 Reqs = 1
 MaxConn = 3
 Streaming = TRUE
 CloseReleases = TRUE
INVARIANT NoDuplicate
INVARIANT ExclusiveUse
INVARIANT NotPooledWhileUsed
INVARIANT BlockBound
INVARIANT SlotsRestored
INVARIANT NoOrphanSocket
INVARIANT ClosedAndDroppedLeavesNothing
PROPERTY EventuallyQuiescent
CHECK_DEADLOCK FALSE
