------------------------------- MODULE Body -------------------------------
(* Scratch prototype: read()/read(n)/read1(n) over an abstract decoder with lag, decoded buffer, D6 deviation. *)
EXTENDS Integers, Sequences, FiniteSets, TLC
CONSTANTS L,            \* payload length in abstract units (decoded)
          Lag,          \* max units the decoder may withhold until flush
          Amts,         \* set of n for read(n)/read1(n)
          MaxOps, KnownDefects
VARIABLES raw,      \* raw units still in the socket (1 raw unit decodes to 1 unit; lag models buffering inside the decoder)
          indec,    \* units fed to the decoder but not yet produced
          buf,      \* decoded-but-undelivered units (positions as a sequence)
          nextpos,  \* next payload position the decoder will produce
          out,      \* sequence of returned pieces (each a sequence of positions)
          eof,      \* fp closed
          flushed, nops
vars == <<raw, indec, buf, nextpos, out, eof, flushed, nops>>
Init == raw = L /\ indec = 0 /\ buf = <<>> /\ nextpos = 1 /\ out = <<>> /\ eof = FALSE /\ flushed = FALSE /\ nops = 0
Range(a, n) == [i \in 1..n |-> a + i - 1]
(* feed k raw units; decoder emits e of the pending ones (environment chooses how much it withholds, <= Lag) *)
Produce(k, e, flush) == /\ e <= indec + k
                        /\ (indec + k) - e <= (IF flush THEN 0 ELSE Lag)
Flat(s) == IF s = <<>> THEN <<>> ELSE LET F[i \in 0..Len(s)] == IF i = 0 THEN <<>> ELSE F[i-1] \o s[i] IN F[Len(s)]
Deliver(piece) == out' = Append(out, piece)

ReadAll ==   \* read(): amt None
  /\ nops < MaxOps /\ nops' = nops + 1
  /\ LET k == raw IN
     \E e \in 0..(indec + k) :
        /\ Produce(k, e, TRUE)
        /\ LET fresh == Range(nextpos, e) IN
           /\ IF "D6" \in KnownDefects
                 THEN Deliver(fresh) /\ UNCHANGED buf            \* buffered bytes are skipped (and stay behind)
                 ELSE Deliver(buf \o fresh) /\ buf' = <<>>
           /\ nextpos' = nextpos + e /\ indec' = 0 /\ raw' = 0 /\ eof' = TRUE /\ flushed' = TRUE

ReadN(n) ==  \* read(n): exact-size reads from the decoded buffer
  /\ nops < MaxOps /\ nops' = nops + 1
  /\ IF Len(buf) >= n THEN
        /\ Deliver(SubSeq(buf, 1, n)) /\ buf' = SubSeq(buf, n + 1, Len(buf))
        /\ UNCHANGED <<raw, indec, nextpos, eof, flushed>>
     ELSE
        \* loop of raw reads collapsed: read as much raw as needed; at raw EOF the decoder is flushed
        \E k \in 0..raw : \E e \in 0..(indec + k) :
           LET atend == (k = raw) IN
           /\ Produce(k, e, atend)
           /\ (Len(buf) + e >= n) \/ atend                           \* keeps reading until n available or EOF
           /\ (k > 0 /\ ~atend) => Len(buf) + e - n < e              \* does not over-read raw needlessly (one block granularity abstracted)
           /\ LET all == buf \o Range(nextpos, e)
                  m == IF Len(all) < n THEN Len(all) ELSE n IN
              /\ Deliver(SubSeq(all, 1, m)) /\ buf' = SubSeq(all, m + 1, Len(all))
           /\ nextpos' = nextpos + e /\ indec' = indec + k - e /\ raw' = raw - k
           /\ eof' = (eof \/ atend) /\ flushed' = (flushed \/ atend)

Read1(n) ==  \* read1(n): at most one raw read, returns whatever is decoded (<= n)
  /\ nops < MaxOps /\ nops' = nops + 1
  /\ IF Len(buf) > 0 THEN
        LET m == IF Len(buf) < n THEN Len(buf) ELSE n IN
        /\ Deliver(SubSeq(buf, 1, m)) /\ buf' = SubSeq(buf, m + 1, Len(buf))
        /\ UNCHANGED <<raw, indec, nextpos, eof, flushed>>
     ELSE
        \E k \in 0..raw : \E e \in 0..(indec + k) :
           LET atend == (k = raw) IN
           /\ (k > 0) \/ atend
           /\ k <= n \/ atend
           /\ Produce(k, e, atend)
           /\ (e > 0) \/ atend                                       \* loops until something is decoded or EOF
           /\ LET all == Range(nextpos, e)
                  m == IF Len(all) < n THEN Len(all) ELSE n IN
              /\ Deliver(SubSeq(all, 1, m)) /\ buf' = SubSeq(all, m + 1, Len(all))
           /\ nextpos' = nextpos + e /\ indec' = indec + k - e /\ raw' = raw - k
           /\ eof' = (eof \/ atend) /\ flushed' = (flushed \/ atend)

Next == ReadAll \/ (\E n \in Amts : ReadN(n) \/ Read1(n))
Spec == Init /\ [][Next]_vars
(* ------------------------------ Rules ------------------------------ *)
Delivered == Flat(out)
InOrderNoLossNoDup == \A i \in 1..Len(Delivered) : Delivered[i] = i
ReadAllCompletes == (nops > 0 /\ eof /\ buf = <<>>) => TRUE
NothingLeftBehind == (eof /\ flushed /\ buf = <<>> /\ raw = 0 /\ indec = 0) => Len(Delivered) = nextpos - 1
=============================================================================
