SPECIFICATION Spec
CONSTANTS MaxLen = 4
 Proxied = TRUE
 KnownDefects = {}
INVARIANT WithinBudgets
INVARIANT NoResendAfterReach
INVARIANT WireBound
CHECK_DEADLOCK FALSE
