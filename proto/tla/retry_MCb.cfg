SPECIFICATION Spec
CONSTANTS MaxLen = 4
 Proxied = TRUE
 KnownDefects = {"D2"}
INVARIANT WithinBudgets
INVARIANT NoResendAfterReach
INVARIANT WireBound
CHECK_DEADLOCK FALSE
