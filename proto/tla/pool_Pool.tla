------------------------------- MODULE Pool -------------------------------
(* Scratch prototype of the connection-pool design model (statement-level). *)
EXTENDS Naturals, Sequences, FiniteSets, TLC

CONSTANTS Threads,        \* request threads
          Closers,        \* threads that call close() once (disjoint from Threads)
          MaxSize, Block, \* pool configuration
          Reqs,           \* requests per thread
          MaxConn,        \* bound on fresh connection objects
          Streaming,      \* TRUE: preload_content=False/release_conn=False (caller disposes)
          CloseReleases   \* TRUE: model a response.close() that also releases (candidate fix)

NONE == 0
ConnIds == 1..MaxConn

VARIABLES ptr,      \* "open" | "closed"   : self.pool is the queue / None
          queue,    \* contents of the one LifoQueue object (survives close as orphan)
          open,     \* set of ConnIds whose socket is open
          dirty,    \* set of ConnIds with unsolicited bytes/EOF pending or unread body
          fresh,    \* next unused ConnId
          pc, conn, left, clean, lq, held, dropped
vars == <<ptr, queue, open, dirty, fresh, pc, conn, left, clean, lq, held, dropped>>

All == Threads \cup Closers

Init == /\ ptr = "open"
        /\ queue = [i \in 1..MaxSize |-> NONE]
        /\ open = {} /\ dirty = {} /\ fresh = 1
        /\ pc = [t \in All |-> IF t \in Threads THEN "idle" ELSE "c0"]
        /\ conn = [t \in All |-> NONE]
        /\ left = [t \in All |-> IF t \in Threads THEN Reqs ELSE 0]
        /\ clean = [t \in All |-> FALSE]
        /\ lq = [t \in All |-> "none"]
        /\ held = [t \in All |-> NONE]     \* connection held by t's undisposed streaming response
        /\ dropped = FALSE                 \* pool object garbage collected (finalizer ran)

Goto(t, l) == pc' = [pc EXCEPT ![t] = l]

(* ---- urlopen: checkout ---- *)
Start(t) == /\ pc[t] = "idle" /\ left[t] > 0 /\ held[t] = NONE
            /\ left' = [left EXCEPT ![t] = @ - 1]
            /\ clean' = [clean EXCEPT ![t] = FALSE]
            /\ Goto(t, "g1") /\ UNCHANGED <<ptr, queue, open, dirty, fresh, conn, lq, held, dropped>>

G1(t) == /\ pc[t] = "g1"      \* if self.pool is None: raise ClosedPoolError
         /\ IF ptr = "closed" THEN Goto(t, "fin") ELSE Goto(t, "g2")   \* -> finally with conn None
         /\ UNCHANGED <<ptr, queue, open, dirty, fresh, conn, left, clean, lq, held, dropped>>

G2(t) == /\ pc[t] = "g2"      \* LOAD self.pool (again)
         /\ lq' = [lq EXCEPT ![t] = IF ptr = "open" THEN "q" ELSE "none"]
         /\ Goto(t, "g3") /\ UNCHANGED <<ptr, queue, open, dirty, fresh, conn, left, clean, held, dropped>>

G3(t) == /\ pc[t] = "g3"      \* .get(block=self.block)
         /\ IF lq[t] = "none" THEN  \* AttributeError -> ClosedPoolError
               /\ Goto(t, "fin") /\ UNCHANGED <<queue, conn>>
            ELSE IF queue # <<>> THEN
               /\ conn' = [conn EXCEPT ![t] = queue[Len(queue)]]
               /\ queue' = SubSeq(queue, 1, Len(queue) - 1)
               /\ Goto(t, "g4")
            ELSE /\ ~Block           \* Block: wait (disabled until non-empty)
                 /\ Goto(t, "g4") /\ UNCHANGED <<queue, conn>>
         /\ UNCHANGED <<ptr, open, dirty, fresh, left, clean, lq, held, dropped>>

G4(t) == /\ pc[t] = "g4"      \* dropped-connection check; new conn if None
         /\ IF conn[t] # NONE THEN
               /\ IF conn[t] \in dirty THEN open' = open \ {conn[t]} /\ dirty' = dirty \ {conn[t]}
                                       ELSE UNCHANGED <<open, dirty>>
               /\ UNCHANGED <<conn, fresh>>
            ELSE /\ fresh <= MaxConn
                 /\ conn' = [conn EXCEPT ![t] = fresh] /\ fresh' = fresh + 1
                 /\ UNCHANGED <<open, dirty>>
         /\ Goto(t, "io") /\ UNCHANGED <<ptr, queue, left, clean, lq, held, dropped>>

(* ---- one attempt: connect/send/receive collapsed into environment outcomes ---- *)
IO(t) == /\ pc[t] = "io"
         /\ \/ \* success, keep-alive
               /\ open' = open \cup {conn[t]} /\ clean' = [clean EXCEPT ![t] = TRUE] /\ UNCHANGED dirty
            \/ \* success, server closes after response (socket closed by http.client at end of body)
               /\ open' = open \ {conn[t]} /\ clean' = [clean EXCEPT ![t] = TRUE] /\ UNCHANGED dirty
            \/ \* any handled error or BaseException at connect/send/recv (socket may be open at that point)
               /\ open' = open \cup {conn[t]} /\ clean' = [clean EXCEPT ![t] = FALSE] /\ UNCHANGED dirty
         /\ Goto(t, "fin") /\ UNCHANGED <<ptr, queue, fresh, conn, left, lq, held, dropped>>

(* ---- finally: ---- *)
Fin(t) == /\ pc[t] = "fin"
          /\ IF ~clean[t] THEN
                /\ open' = open \ {conn[t]}              \* conn.close()
                /\ conn' = [conn EXCEPT ![t] = NONE]
                /\ Goto(t, "p1") /\ UNCHANGED held          \* release_this_conn = True
             ELSE IF Streaming THEN                        \* response keeps the connection
                /\ held' = [held EXCEPT ![t] = conn[t]]
                /\ conn' = [conn EXCEPT ![t] = NONE]
                /\ Goto(t, "resp") /\ UNCHANGED open
             ELSE /\ Goto(t, "p1") /\ UNCHANGED <<open, conn, held>>
          /\ UNCHANGED <<ptr, queue, dirty, fresh, left, clean, lq, dropped>>

(* ---- _put_conn(conn[t]) ---- *)
P1(t) == /\ pc[t] = "p1"     \* if self.pool is not None
         /\ IF ptr = "closed" THEN Goto(t, "p4") ELSE Goto(t, "p2")
         /\ UNCHANGED <<ptr, queue, open, dirty, fresh, conn, left, clean, lq, held, dropped>>
P2(t) == /\ pc[t] = "p2"     \* LOAD self.pool
         /\ lq' = [lq EXCEPT ![t] = IF ptr = "open" THEN "q" ELSE "none"]
         /\ Goto(t, "p3") /\ UNCHANGED <<ptr, queue, open, dirty, fresh, conn, left, clean, held, dropped>>
P3(t) == /\ pc[t] = "p3"     \* .put(conn, block=False)
         /\ IF lq[t] = "none" THEN Goto(t, "p4") /\ UNCHANGED <<queue, conn>>
            ELSE IF Len(queue) < MaxSize THEN
                 queue' = Append(queue, conn[t]) /\ Goto(t, "idle") /\ conn' = [conn EXCEPT ![t] = NONE]
            ELSE Goto(t, "p4") /\ UNCHANGED <<queue, conn>>        \* Full -> close (FullPoolError if Block)
         /\ UNCHANGED <<ptr, open, dirty, fresh, left, clean, lq, held, dropped>>
P4(t) == /\ pc[t] = "p4"     \* if conn: conn.close()
         /\ open' = open \ {conn[t]} /\ conn' = [conn EXCEPT ![t] = NONE]
         /\ Goto(t, "idle") /\ UNCHANGED <<ptr, queue, dirty, fresh, left, clean, lq, held, dropped>>
Done(t) == /\ pc[t] = "done"
           /\ conn' = [conn EXCEPT ![t] = NONE]
           /\ Goto(t, "idle") /\ UNCHANGED <<ptr, queue, open, dirty, fresh, left, clean, lq, held, dropped>>

(* ---- caller disposes of a streaming response ---- *)
Resp(t) == /\ pc[t] = "resp"
           /\ \/ \* read to the end / release after full read: connection goes back as is
                 /\ conn' = [conn EXCEPT ![t] = held[t]] /\ held' = [held EXCEPT ![t] = NONE]
                 /\ Goto(t, "p1") /\ UNCHANGED <<open, dirty>>
              \/ \* release_conn() with unread body: goes back dirty
                 /\ conn' = [conn EXCEPT ![t] = held[t]] /\ held' = [held EXCEPT ![t] = NONE]
                 /\ dirty' = IF held[t] \in open THEN dirty \cup {held[t]} ELSE dirty
                 /\ Goto(t, "p1") /\ UNCHANGED open
              \/ \* read error: connection closed then released
                 /\ conn' = [conn EXCEPT ![t] = held[t]] /\ held' = [held EXCEPT ![t] = NONE]
                 /\ open' = open \ {held[t]}
                 /\ Goto(t, "p1") /\ UNCHANGED dirty
              \/ \* close(): connection closed; released only under the candidate fix
                 /\ open' = open \ {held[t]}
                 /\ IF CloseReleases
                       THEN conn' = [conn EXCEPT ![t] = held[t]] /\ Goto(t, "p1")
                       ELSE UNCHANGED conn /\ Goto(t, "idle")
                 /\ held' = [held EXCEPT ![t] = NONE] /\ UNCHANGED dirty
           /\ UNCHANGED <<ptr, queue, fresh, left, clean, lq, dropped>>

(* ---- environment: idle pooled connection receives EOF / stray bytes ---- *)
PeerNoise == /\ \E c \in open \ dirty : 
                  /\ \E i \in 1..Len(queue) : queue[i] = c
                  /\ dirty' = dirty \cup {c}
             /\ UNCHANGED <<ptr, queue, open, fresh, pc, conn, left, clean, lq, held, dropped>>

(* ---- close() ---- *)
C0(t) == /\ pc[t] = "c0"     \* if self.pool is None: return
         /\ IF ptr = "closed" THEN Goto(t, "cdone") ELSE Goto(t, "c1")
         /\ UNCHANGED <<ptr, queue, open, dirty, fresh, conn, left, clean, lq, held, dropped>>
C1(t) == /\ pc[t] = "c1"     \* old_pool, self.pool = self.pool, None
         /\ lq' = [lq EXCEPT ![t] = IF ptr = "open" THEN "q" ELSE "none"]
         /\ ptr' = "closed"
         /\ Goto(t, "c2") /\ UNCHANGED <<queue, open, dirty, fresh, conn, left, clean, held, dropped>>
C2(t) == /\ pc[t] = "c2"     \* drain one item at a time
         /\ IF lq[t] = "q" /\ queue # <<>> THEN
               /\ open' = open \ {queue[Len(queue)]}
               /\ queue' = SubSeq(queue, 1, Len(queue) - 1)
               /\ UNCHANGED pc
            ELSE Goto(t, "cdone") /\ UNCHANGED <<queue, open>>
         /\ UNCHANGED <<ptr, dirty, fresh, conn, left, clean, lq, held, dropped>>

Quiescent == /\ \A t \in Threads : pc[t] = "idle" /\ left[t] = 0 /\ held[t] = NONE
             /\ \A t \in Closers : pc[t] = "cdone"

(* pool object dropped -> weakref.finalize drains the (possibly orphaned) queue *)
Drop == /\ Quiescent /\ ~dropped /\ dropped' = TRUE
        /\ open' = open \ {queue[i] : i \in 1..Len(queue)}
        /\ queue' = <<>>
        /\ UNCHANGED <<ptr, dirty, fresh, pc, conn, left, clean, lq, held>>

Next == \/ \E t \in Threads : Start(t) \/ G1(t) \/ G2(t) \/ G3(t) \/ G4(t) \/ IO(t) \/ Fin(t)
                              \/ P1(t) \/ P2(t) \/ P3(t) \/ P4(t) \/ Done(t) \/ Resp(t)
        \/ \E t \in Closers : C0(t) \/ C1(t) \/ C2(t)
        \/ PeerNoise \/ Drop

Fair == /\ \A t \in Threads : WF_vars(Start(t) \/ G1(t) \/ G2(t) \/ G3(t) \/ G4(t) \/ IO(t) \/ Fin(t)
                                      \/ P1(t) \/ P2(t) \/ P3(t) \/ P4(t) \/ Done(t) \/ Resp(t))
        /\ \A t \in Closers : WF_vars(C0(t) \/ C1(t) \/ C2(t))
Spec == Init /\ [][Next]_vars /\ Fair

(* ------------------------- properties ------------------------- *)
InQueue(c) == \E i \in 1..Len(queue) : queue[i] = c
NoDuplicate == \A i, j \in 1..Len(queue) : (i # j /\ queue[i] # NONE) => queue[i] # queue[j]
Leases == Cardinality({t \in Threads : conn[t] # NONE \/ held[t] # NONE \/ pc[t] \in {"g4","p1","p2","p3","p4","fin","io"}})
ExclusiveUse == \A t, u \in Threads : (t # u /\ conn[t] # NONE) => (conn[t] # conn[u] /\ conn[t] # held[u])
NotPooledWhileUsed == \A t \in Threads : (conn[t] # NONE /\ pc[t] \in {"g4","io","fin"}) => ~InQueue(conn[t])
BlockBound == Block => Cardinality(open) <= MaxSize
SlotsRestored == (Quiescent /\ ptr = "open" /\ ~dropped) => Len(queue) = MaxSize
NoOrphanSocket == (Quiescent /\ ptr = "open") => \A c \in open : InQueue(c)
ClosedAndDroppedLeavesNothing == (Quiescent /\ dropped) => open = {}
EventuallyQuiescent == <>[]Quiescent
=============================================================================
