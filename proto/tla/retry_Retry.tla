------------------------------- MODULE Retry -------------------------------
(* Scratch prototype: closed retry loop of HTTPConnectionPool.urlopen + Retry.increment (no redirects). *)
EXTENDS Integers, Sequences, FiniteSets, TLC
CONSTANTS MaxLen,         \* outcome sequences up to this length
          Proxied,        \* route goes through a proxy
          KnownDefects    \* subset of {"D2"}
NoneV == -9   \* encodes Python None
FalseV == -8  \* encodes Python False
Budget == {NoneV, 0, 1, 2}
Outcomes == {"ConnErr", "TLSErr", "ReadErrClosed", "ReadErr", "S500", "S429RA", "S404RA", "OK"}
Methods == {"GET", "POST"}
VARIABLES cfg,     \* caller policy (never changes)
          cnt,     \* effective counters [total, connect, read, status, other]
          method, wire, hist, retried, state, lastcat
vars == <<cfg, cnt, method, wire, hist, retried, state, lastcat>>

Cfgs == [total: {NoneV, FalseV, 0, 1, 2}, connect: Budget \cup {FalseV}, read: Budget \cup {FalseV}, status: Budget, other: Budget,
         allowedDefault: BOOLEAN, forcelist: BOOLEAN, respectRA: BOOLEAN, raiseOnStatus: BOOLEAN]
Bounded(c) == c.total # NoneV     \* total=None with unbounded categories never terminates by design

Init == /\ cfg \in {c \in Cfgs : Bounded(c)}
        /\ cnt = [total |-> cfg.total, connect |-> cfg.connect, read |-> cfg.read, status |-> cfg.status, other |-> cfg.other]
        /\ method \in Methods
        /\ wire = 0 /\ hist = <<>> /\ state = "attempt" /\ lastcat = "none"
        /\ retried = [c \in {"connect", "read", "status", "other"} |-> 0]

Allowed == ~cfg.allowedDefault \/ method = "GET"      \* allowed_methods=None allows everything
Dec(x) == IF x = NoneV THEN NoneV ELSE IF x = FalseV THEN -1 ELSE x - 1
Exhausted(c) == \E f \in {"total", "connect", "read", "status", "other"} : c[f] # NoneV /\ c[f] # 0 /\ c[f] # FalseV /\ c[f] < 0
(* how urllib3 files the error: ground truth category gt, and the D2 deviation *)
Filed(o) == CASE o = "ConnErr" -> "connect"
              [] o = "TLSErr" -> "other"
              [] o = "ReadErr" -> "read"
              [] o = "ReadErrClosed" -> IF Proxied /\ "D2" \in KnownDefects THEN "other" ELSE "read"
Truth(o) == CASE o = "ConnErr" -> "connect" [] o = "TLSErr" -> "other" [] o \in {"ReadErr", "ReadErrClosed"} -> "read" [] OTHER -> "status"

Attempt(o) ==
  /\ state = "attempt" /\ Len(hist) < MaxLen
  /\ wire' = IF o = "ConnErr" \/ o = "TLSErr" THEN wire ELSE wire + 1     \* request bytes left only if connected
  /\ hist' = Append(hist, o)
  /\ LET sent == wire' IN
     IF o \in {"ConnErr", "TLSErr", "ReadErr", "ReadErrClosed"} THEN
        LET f == Filed(o) IN
        IF cnt.total = FalseV THEN state' = "raised" /\ UNCHANGED <<cnt, retried, lastcat>>
        ELSE IF f = "connect" /\ cnt.connect = FalseV THEN state' = "raised" /\ UNCHANGED <<cnt, retried, lastcat>>
        ELSE IF f = "read" /\ (cnt.read = FalseV \/ ~Allowed) THEN state' = "raised" /\ UNCHANGED <<cnt, retried, lastcat>>
        ELSE LET c2 == [cnt EXCEPT !.total = Dec(@), ![f] = Dec(@)] IN
             /\ cnt' = c2
             /\ IF Exhausted(c2) THEN state' = "maxretry" /\ UNCHANGED <<retried, lastcat>>
                ELSE state' = "attempt" /\ retried' = [retried EXCEPT ![Truth(o)] = @ + 1] /\ lastcat' = Truth(o)
     ELSE IF o = "OK" THEN state' = "returned" /\ UNCHANGED <<cnt, retried, lastcat>>
     ELSE \* status outcomes
        LET isRetry == Allowed /\ ( (o = "S500" /\ cfg.forcelist)
                                   \/ (o = "S429RA" /\ cnt.total # 0 /\ cnt.total # FalseV /\ cfg.respectRA) ) IN
        IF ~isRetry THEN state' = "returned" /\ UNCHANGED <<cnt, retried, lastcat>>
        ELSE LET c2 == [cnt EXCEPT !.total = Dec(@), !.status = Dec(@)] IN
             /\ cnt' = c2
             /\ IF Exhausted(c2) THEN state' = (IF cfg.raiseOnStatus THEN "maxretry" ELSE "returned") /\ UNCHANGED <<retried, lastcat>>
                ELSE state' = "attempt" /\ retried' = [retried EXCEPT !["status"] = @ + 1] /\ lastcat' = "status"
  /\ UNCHANGED <<cfg, method>>

Next == \E o \in Outcomes : Attempt(o)
Spec == Init /\ [][Next]_vars /\ WF_vars(Next)

(* ------------------------------ Rules ------------------------------ *)
IsInt(x) == x # NoneV /\ x # FalseV
WithinBudgets ==
   /\ IsInt(cfg.total) => retried.connect + retried.read + retried.status + retried.other <= cfg.total
   /\ \A c \in {"connect", "read", "status", "other"} : IsInt(cfg[c]) => retried[c] <= cfg[c]
   /\ cfg.total = FalseV => retried.connect + retried.read + retried.status + retried.other = 0
NoResendAfterReach == (cfg.allowedDefault /\ method = "POST") => retried.read + retried.status = 0
WireBound == IsInt(cfg.total) => wire <= 1 + cfg.total
Terminates == <>(state # "attempt" \/ Len(hist) = MaxLen)
=============================================================================
