---- MODULE Mon ----
(* Scratch: total monitor over a batch of traces; verdict per trace printed; never blocks. *)
EXTENDS Naturals, Sequences, FiniteSets, TLC, Json, IOUtils
Traces == JsonDeserialize(IOEnv.TRACE_FILE)
N == 1
VARIABLES tid, l, queue, leased, bad
vars == <<tid, l, queue, leased, bad>>
Fresh == [i \in 1..N |-> 0]
Init == tid = 1 /\ l = 1 /\ queue = Fresh /\ leased = 0 /\ bad = "ok"
Ev == Traces[tid].events[l]
Clause(q, ls, e) ==
   IF e.ev = "quiesce" /\ Len(q) # N THEN "SlotsRestored"
   ELSE IF \E i, j \in 1..Len(q) : i # j /\ q[i] # 0 /\ q[i] = q[j] THEN "NoDuplicate"
   ELSE "ok"
Step == /\ tid <= Len(Traces) /\ l <= Len(Traces[tid].events)
        /\ LET e == Ev
               q2 == CASE e.ev = "get" -> IF queue # <<>> THEN SubSeq(queue, 1, Len(queue)-1) ELSE queue
                       [] e.ev = "put" -> Append(queue, e.item)
                       [] OTHER -> queue
               c == Clause(q2, leased, e)
           IN /\ queue' = q2 /\ leased' = leased
              /\ bad' = IF bad = "ok" THEN c ELSE bad
        /\ l' = l + 1 /\ tid' = tid
NextTrace == /\ tid <= Len(Traces) /\ l > Len(Traces[tid].events)
             /\ (bad # "ok" => PrintT(<<"VERDICT", Traces[tid].id, bad>>))
             /\ tid' = tid + 1 /\ l' = 1 /\ queue' = Fresh /\ leased' = 0 /\ bad' = "ok"
Next == Step \/ NextTrace
Spec == Init /\ [][Next]_vars
AllConsumed == TLCGet("stats").diameter >= 1
Finished == tid = Len(Traces) + 1
====
