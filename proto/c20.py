"""Recon: multipart round trip with a strict independent parser over hostile names/filenames."""
import sys, itertools, collections
sys.path.insert(0, "/repo/src")
from urllib3 import encode_multipart_formdata
from urllib3.fields import RequestField
ALPHA = ['"', "\r", "\n", ";", "\\", "-", "a", "é", "%", " ", "=", ":"]
B = "BOUNDARY"
def strict_parse(body, boundary):
    """returns list of (headers list[(name,value)], data bytes); raises on any structural deviation"""
    delim = b"--" + boundary.encode()
    parts = []
    pos = 0
    if not body.startswith(delim + b"\r\n") and body != delim + b"--\r\n": raise ValueError("no opening delimiter")
    if body == delim + b"--\r\n": return []
    pos = len(delim) + 2
    while True:
        # headers until CRLFCRLF
        hend = body.index(b"\r\n\r\n", pos)
        hdr_block = body[pos:hend].decode("utf-8")
        headers = []
        for line in hdr_block.split("\r\n"):
            if "\r" in line or "\n" in line: raise ValueError("bare CR/LF in header")
            name, sep, value = line.partition(": ")
            if not sep: raise ValueError("bad header line %r" % line)
            headers.append((name, value))
        dpos = hend + 4
        nxt = body.index(b"\r\n" + delim, dpos)
        data = body[dpos:nxt]
        parts.append((headers, data))
        after = nxt + 2 + len(delim)
        if body[after:after+4] == b"--\r\n":
            if after + 4 != len(body): raise ValueError("trailing bytes")
            return parts
        if body[after:after+2] != b"\r\n": raise ValueError("bad delimiter tail")
        pos = after + 2
def parse_cd(value):
    """strict Content-Disposition parse: form-data; name="..."[; filename="..."] ; quoted strings end at first unescaped quote (no escapes in WHATWG)"""
    if not value.startswith("form-data"): raise ValueError("cd")
    rest = value[len("form-data"):]
    params = []
    while rest:
        if not rest.startswith("; "): raise ValueError("cd sep %r" % rest)
        rest = rest[2:]
        k, eq, rest = rest.partition('="')
        if not eq: raise ValueError("cd param")
        v, q, rest = rest.partition('"')
        if not q: raise ValueError("cd unterminated")
        params.append((k, v))
    return params
def unescape(v): return v.replace("%22", '"').replace("%0D", "\r").replace("%0A", "\n")
stats = collections.Counter(); ex = {}
def check(fields_in, expected):
    body, ct = encode_multipart_formdata(fields_in, boundary=B)
    if ct != "multipart/form-data; boundary=" + B: stats["ct"] += 1
    try:
        parts = strict_parse(body, B)
        if len(parts) != len(expected): raise ValueError("count %d != %d" % (len(parts), len(expected)))
        for (headers, data), (name, filename, value) in zip(parts, expected):
            cds = [v for k, v in headers if k == "Content-Disposition"]
            if len(cds) != 1: raise ValueError("cd count")
            params = parse_cd(cds[0])
            want = [("name", name)] + ([("filename", filename)] if filename is not None else [])
            got = [(k, unescape(v)) for k, v in params]
            # escaped value must not contain raw quote/CR/LF
            if any(ch in v for k, v in params for ch in '"\r\n'): raise ValueError("raw special in param")
            if got != want: raise ValueError("params %r != %r" % (got, want))
            if data != (value.encode("utf-8") if isinstance(value, str) else value): raise ValueError("data")
            extra = [k for k, v in headers if k not in ("Content-Disposition", "Content-Type")]
            if extra: raise ValueError("extra header %r" % extra)
        stats["ok"] += 1
    except Exception as e:
        k = "FAIL:" + str(e).split(" ")[0]; stats[k] += 1; ex.setdefault(k, (fields_in, str(e), body[:200]))
strs = [""] + ["".join(t) for n in (1, 2, 3) for t in itertools.product(ALPHA, repeat=n)]
for name in strs:
    if name == "": continue
    check([(name, "v")], [(name, None, "v")])
    check([(name, ("f" + name, b"\x00\r\n--x", "text/plain"))], [(name, "f" + name, b"\x00\r\n--x")])
for a, b in itertools.product(strs[1:40], repeat=2):
    check({a: "1", b + "x": b"2"} if a != b + "x" else {a: "1"}, [(a, None, "1"), (b + "x", None, b"2")] if a != b + "x" else [(a, None, "1")])
    check([RequestField(a, "d", filename=b)], None) if False else None
for k, v in sorted(stats.items()): print(v, k, ex.get(k))
