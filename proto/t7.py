import sys, socket, threading, time, gc, warnings
sys.path.insert(0, "/repo/src")
import urllib3, urllib3.util.connection as uc
peers=[]
MODE = {"close": False}
def cc(address, timeout=None, source_address=None, socket_options=None):
    a,b = socket.socketpair(); peers.append(b)
    def srv():
        f=b.makefile("rb")
        while True:
            line=f.readline()
            if not line: return
            if line==b"\r\n":
                hdr = b"Connection: close\r\n" if MODE["close"] else b""
                try: b.sendall(b"HTTP/1.1 200 OK\r\n"+hdr+b"Content-Length: 5\r\n\r\nhello")
                except OSError: return
    threading.Thread(target=srv, daemon=True).start()
    return a
uc.create_connection = cc
def peer_open(b):
    b.setblocking(False)
    try:
        while True:
            d = b.recv(65536)
            if d == b"": return False
    except BlockingIOError: return True
    finally: b.setblocking(True)
warnings.simplefilter("always")
for close in (False, True):
    for disp in ("read", "release_unread", "close", "drain", "partial_release", "partial_close_release"):
        MODE["close"] = close
        pool = urllib3.HTTPConnectionPool("a.test", 80, maxsize=1, block=False)
        r = pool.urlopen("GET", "/", preload_content=False)
        if disp == "read": r.read()
        elif disp == "release_unread": r.release_conn()
        elif disp == "close": r.close()
        elif disp == "drain": r.drain_conn()
        elif disp == "partial_release": r.read(2); r.release_conn()
        elif disp == "partial_close_release": r.read(2); r.close(); r.release_conn()
        time.sleep(0.02)
        q = pool.pool.qsize(); items = list(pool.pool.queue)
        idle_open = [c for c in items if c is not None and c.sock is not None]
        before = peer_open(peers[-1])
        with warnings.catch_warnings(record=True) as w:
            warnings.simplefilter("always")
            del r; gc.collect()
        after = peer_open(peers[-1])
        print(f"conn_close={close!s:5} disp={disp:22} qsize={q} idle_open_in_pool={len(idle_open)} peer_open(before drop)={before} after_drop={after} resourcewarn={[str(x.message)[:40] for x in w]}")
