import sys, socket, threading, time
sys.path.insert(0, "/repo/src")
import urllib3, urllib3.util.connection as uc
from urllib3.exceptions import EmptyPoolError
peers=[]
def cc(address, timeout=None, source_address=None, socket_options=None):
    a,b = socket.socketpair(); peers.append(b)
    def srv():
        f=b.makefile("rb")
        while True:
            line=f.readline()
            if not line: return
            if line==b"\r\n":
                try: b.sendall(b"HTTP/1.1 200 OK\r\nContent-Length: 5\r\n\r\nhello")
                except OSError: return
    threading.Thread(target=srv, daemon=True).start()
    return a
uc.create_connection = cc

# D9: close() without read on block=True pool
pool = urllib3.HTTPConnectionPool("a.test", 80, maxsize=1, block=True)
r = pool.urlopen("GET", "/", preload_content=False)
r.close()
print("after close: qsize", pool.pool.qsize())
try:
    r2 = pool.urlopen("GET", "/", pool_timeout=0.2); print("second ok", r2.data)
except EmptyPoolError as e: print("second -> EmptyPoolError (slot leaked by close())")
r.release_conn(); print("after release_conn: qsize", pool.pool.qsize())

# variant: read fully -> auto release
pool = urllib3.HTTPConnectionPool("a.test", 80, maxsize=1, block=True)
r = pool.urlopen("GET", "/", preload_content=False); r.read(); print("after full read qsize", pool.pool.qsize())
# variant: partial read then close
r = pool.urlopen("GET", "/", preload_content=False); r.read(2); r.close(); print("partial+close qsize", pool.pool.qsize())
r.release_conn()
# variant: drop response without anything (GC)
r = pool.urlopen("GET", "/", preload_content=False); del r
import gc; gc.collect(); print("dropped response qsize", pool.pool.qsize())

# D8: close() while a getter is blocked
pool = urllib3.HTTPConnectionPool("a.test", 80, maxsize=1, block=True)
r = pool.urlopen("GET", "/", preload_content=False)   # T1 holds the only slot
res = {}
def waiter():
    try:
        rr = pool.urlopen("GET", "/"); res["w"] = "ok"
    except Exception as e: res["w"] = type(e).__name__
t = threading.Thread(target=waiter, daemon=True); t.start()
time.sleep(0.2)
pool.close()
r.read()  # T1 finishes, releases
time.sleep(0.5)
print("waiter after close+release:", res.get("w", "STILL BLOCKED (hang)"))
