"""Scratch: socketpair-backed in-memory network patched in at urllib3.util.connection.create_connection."""
import socket, sys, io
sys.path.insert(0, "/repo/src")
import urllib3, urllib3.util.connection as uc

class Net:
    def __init__(self):
        self.log = []          # events
        self.conns = []        # server-side sockets
        self.scripts = []      # per-connection: callable(server_sock, reqbytes)->None or list of responses
        self.connect_faults = []
    def create_connection(self, address, timeout=None, source_address=None, socket_options=None):
        self.log.append(("connect", address))
        if self.connect_faults:
            f = self.connect_faults.pop(0)
            if f is not None:
                raise f
        c, s = socket.socketpair()
        if timeout is not uc._DEFAULT_TIMEOUT if hasattr(uc, "_DEFAULT_TIMEOUT") else False:
            c.settimeout(timeout)
        self.conns.append(s)
        return c
net = Net()
uc.create_connection = net.create_connection
