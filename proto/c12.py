"""Recon: read-API equivalence fuzz on real HTTPResponse objects; collects distinct failure signatures."""
import sys, socket, io, gzip, zlib, random, itertools, collections
sys.path.insert(0, "/repo/src")
import urllib3
from urllib3.connection import HTTPConnection
from urllib3.exceptions import HTTPError
import zstandard as zstd

def enc(coding, payload, rnd):
    if coding == "identity": return payload
    if coding == "gzip": return gzip.compress(payload)
    if coding == "gzip2":
        k = len(payload)//2; return gzip.compress(payload[:k]) + gzip.compress(payload[k:])
    if coding == "deflate": return zlib.compress(payload)
    if coding == "rawdeflate":
        c = zlib.compressobj(wbits=-zlib.MAX_WBITS); return c.compress(payload) + c.flush()
    if coding == "zstd": return zstd.compress(payload)
    if coding == "zstd2":
        k = len(payload)//2; return zstd.compress(payload[:k]) + zstd.compress(payload[k:])
    if coding == "gzip,zstd": return zstd.compress(gzip.compress(payload))   # applied in order listed
    if coding == "deflate,gzip": return gzip.compress(zlib.compress(payload))
CE = {"gzip2": "gzip", "rawdeflate": "deflate", "zstd2": "zstd"}

def frame(framing, body, rnd):
    if framing == "cl": return b"Content-Length: %d\r\n\r\n" % len(body) + body
    if framing == "close": return b"Connection: close\r\n\r\n" + body
    out = b"Transfer-Encoding: chunked\r\n\r\n"; i = 0
    while i < len(body):
        n = rnd.choice([1, 2, 3, 7, 64, 1000]); part = body[i:i+n]; i += n
        out += b"%x;ext=1\r\n" % len(part) + part + b"\r\n"
    return out + b"0\r\n\r\n"

def mkresp(wire, seg, rnd):
    c, s = socket.socketpair()
    conn = HTTPConnection("h", 80); conn.sock = c
    conn.request("GET", "/", preload_content=False)
    s.recv(65536)
    if seg == "whole": s.sendall(wire)
    else:
        # deliver everything up front but in many small sends (kernel coalesces; segmentation approximated)
        i = 0
        while i < len(wire):
            n = rnd.choice([1, 5, 17, 4096]); s.sendall(wire[i:i+n]); i += n
    s.close()
    return conn.getresponse()

OPS = ["read()", "read(1)", "read(2)", "read(3)", "read(7)", "read(64)", "read(1000)", "read1(1)", "read1(7)", "read1(64)", "read1()", "readinto(3)", "readinto(64)", "read(0)"]
def apply(r, op):
    if op == "read()": return r.read()
    if op.startswith("read1("):
        a = op[6:-1]; return r.read1(int(a)) if a else r.read1()
    if op.startswith("readinto("):
        b = bytearray(int(op[9:-1])); n = r.readinto(b); return bytes(b[:n])
    return r.read(int(op[5:-1]))

rnd = random.Random(5)
sig = collections.Counter(); examples = {}
N = 0
for it in range(30000):
    size = rnd.choice([0, 1, 2, 5, 13, 70, 300, 3000, 70000])
    payload = bytes(rnd.randrange(256) if rnd.random() < 0.3 else 65 + (i % 7) for i in range(size)) if size < 5000 else (bytes(range(256)) * (size // 256 + 1))[:size]
    coding = rnd.choice(["identity", "gzip", "gzip2", "deflate", "rawdeflate", "zstd", "zstd2", "gzip,zstd", "deflate,gzip"])
    framing = rnd.choice(["cl", "chunked", "close"])
    body = enc(coding, payload, rnd)
    hdr = b"HTTP/1.1 200 OK\r\n" + (b"" if coding == "identity" else b"Content-Encoding: " + CE.get(coding, coding).encode() + b"\r\n")
    wire = hdr + frame(framing, body, rnd)
    mode = rnd.choice(["ops", "ops", "stream", "chunked", "iter"])
    try:
        r = mkresp(wire, rnd.choice(["whole", "small"]), rnd)
        got = []; ops = []
        if mode == "ops":
            for k in range(rnd.randint(1, 5)):
                op = rnd.choice(OPS); ops.append(op); got.append(apply(r, op))
            # finish with repeated read(64) until empty twice
            for k in range(200000):
                d = r.read(997); ops.append("read(997)")
                if not d: break
                got.append(d)
            tail = r.read(5)
            if tail: sig["DataAfterEnd"] += 1
        elif mode == "stream":
            amt = rnd.choice([1, 3, 64, 1000]); ops = ["stream(%d)" % amt]
            for piece in r.stream(amt, decode_content=True):
                if not piece: sig["EmptyStreamPiece"] += 1; examples.setdefault("EmptyStreamPiece", (coding, framing, size, ops))
                got.append(piece)
        elif mode == "chunked":
            if framing != "chunked": continue
            amt = rnd.choice([None, 1, 3, 64]); ops = ["read_chunked(%s)" % amt]
            for piece in r.read_chunked(amt, decode_content=True):
                got.append(piece)
        else:
            ops = ["iter"]; got = list(r)
        N += 1
        data = b"".join(got)
        if data != payload:
            d6 = mode == "ops" and coding != "identity" and any(o == "read()" for o in ops[1:]) 
            k = ("D6:" if d6 else "Mismatch:") + coding + ":" + ("ops" if mode == "ops" else mode)
            sig[k] += 1; examples.setdefault(k, (coding, framing, size, ops[:6], len(data), len(payload)))
        # read(n) short only at end
        if mode == "ops":
            pos = 0
            for op, g in zip(ops, got):
                if op.startswith("read(") and op != "read()" and op != "read(0)":
                    n = int(op[5:-1])
                    if len(g) > n: sig["ReadNTooLong"] += 1
                    if len(g) < n and pos + len(g) < len(payload) and data == payload:
                        sig["ReadNShortMidBody"] += 1; examples.setdefault("ReadNShortMidBody", (coding, framing, size, ops[:6]))
                pos += len(g)
    except HTTPError as e:
        k = "Err:" + type(e).__name__ + ":" + coding + ":" + mode
        sig[k] += 1; examples.setdefault(k, (coding, framing, size, ops[:6], str(e)[:80]))
    except Exception as e:
        k = "RAW:" + type(e).__name__ + ":" + coding + ":" + mode
        sig[k] += 1; examples.setdefault(k, (coding, framing, size, ops[:6], str(e)[:80]))
print("executions", N)
for k, v in sorted(sig.items()): print(v, k, examples.get(k))
