"""Recon: TLS verification decision lattice (direct, stdlib ssl) vs Demanded/Passed model; real handshakes over socketpair."""
import sys, socket, ssl, threading, tempfile, os, warnings, itertools, collections, hashlib, time
sys.path.insert(0, "/repo/src")
import urllib3, urllib3.util.connection as uc
from urllib3.exceptions import HTTPError, SSLError, MaxRetryError, InsecureRequestWarning
import trustme
ca = trustme.CA(); evil = trustme.CA()
capath = tempfile.mktemp(suffix=".pem"); ca.cert_pem.write_to_path(capath)
def mint(issuer, san):
    authority = ca if issuer == "trusted" else evil
    if san == "exact": return authority.issue_cert("svc.test")
    if san == "wildcard": return authority.issue_cert("*.test")
    if san == "mismatch": return authority.issue_cert("other.test")
    if san == "ip_match": return authority.issue_cert("127.0.0.1")
    if san == "ip_mismatch": return authority.issue_cert("127.0.0.2")
    if san == "cn_only": return authority.issue_cert(common_name="svc.test")
CERTS = {}
def server_ctx(issuer, san):
    k = (issuer, san)
    if k not in CERTS:
        cert = mint(issuer, san); c = ssl.SSLContext(ssl.PROTOCOL_TLS_SERVER); cert.configure_cert(c)
        der = ssl.PEM_cert_to_DER_cert(cert.cert_chain_pems[0].bytes().decode())
        CERTS[k] = (c, der)
    return CERTS[k]
OBS = {}
def party(sock, ctx):
    OBS.update(handshake=False, request=False)
    try:
        s = ctx.wrap_socket(sock, server_side=True); OBS["handshake"] = True
        s.settimeout(1.0)
        d = s.recv(65536)
        if d: OBS["request"] = True; s.sendall(b"HTTP/1.1 200 OK\r\nConnection: close\r\nContent-Length: 2\r\n\r\nok")
        s.close()
    except Exception as e: OBS["party_exc"] = type(e).__name__
    finally:
        OBS["done"] = True
CUR = {}
def cc(address, timeout=None, source_address=None, socket_options=None):
    a, b = socket.socketpair(); OBS["dial"] = address; OBS["done"] = False
    threading.Thread(target=party, args=(b, CUR["ctx"]), daemon=True).start()
    return a
uc.create_connection = cc
def names_match(name, san):
    if name is None: return False
    n = name.rstrip(".").lower()
    return {"exact": n == "svc.test", "wildcard": n.endswith(".test") and n.count(".") == 1 and n != ".test", "mismatch": n == "other.test",
            "ip_match": n == "127.0.0.1", "ip_mismatch": n == "127.0.0.2", "cn_only": False}[san]
stats = collections.Counter(); ex = {}
def note(k, info): stats[k] += 1; ex.setdefault(k, info)
REQ = {"default": None, "REQUIRED": "CERT_REQUIRED", "OPTIONAL": "CERT_OPTIONAL", "NONE": "CERT_NONE"}
def mkctx(kind):
    if kind == "none": return None
    if kind == "default_like":
        c = ssl.create_default_context(cafile=capath); return c
    if kind == "nocheck":
        c = ssl.create_default_context(cafile=capath); c.check_hostname = False; return c
    if kind == "mode_none":
        c = ssl.create_default_context(cafile=capath); c.check_hostname = False; c.verify_mode = ssl.CERT_NONE; return c
for issuer, san in itertools.product(["trusted", "untrusted"], ["exact", "wildcard", "mismatch", "ip_match", "ip_mismatch", "cn_only"]):
  sctx, der = server_ctx(issuer, san)
  CUR["ctx"] = sctx
  fps = {"unset": None, "right": hashlib.sha256(der).hexdigest(), "right_colon_upper": ":".join(hashlib.sha256(der).hexdigest().upper()[i:i+2] for i in range(0, 64, 2)),
         "wrong": hashlib.sha256(b"x").hexdigest(), "badlen": "abcd"}
  for host in (["127.0.0.1"] if san.startswith("ip") else ["svc.test", "SVC.TEST", "svc.test."]):
    for reqs in REQ:
      for ah in ["unset", "False", "match", "mismatch"]:
        for fp in fps:
          for sh in ["unset", "match", "mismatch"]:
            for ctxkind in ["none", "default_like", "nocheck", "mode_none"]:
                # prune: keep lattice manageable
                if fp in ("right_colon_upper", "badlen") and (ah != "unset" or sh != "unset" or ctxkind != "none"): continue
                if sh != "unset" and ah != "unset": continue
                good_name = "127.0.0.1" if san.startswith("ip") else "svc.test"
                if san == "mismatch": good_name = "other.test"
                if san == "ip_mismatch": good_name = "127.0.0.2"
                kw = dict(ca_certs=capath, timeout=2, retries=False)
                ctx = mkctx(ctxkind)
                if ctx is not None: kw["ssl_context"] = ctx; kw.pop("ca_certs")
                if REQ[reqs] is not None: kw["cert_reqs"] = REQ[reqs]
                if ah == "False": kw["assert_hostname"] = False
                elif ah == "match": kw["assert_hostname"] = good_name
                elif ah == "mismatch": kw["assert_hostname"] = "nomatch.test"
                if fps[fp] is not None: kw["assert_fingerprint"] = fps[fp]
                if sh == "match": kw["server_hostname"] = good_name
                elif sh == "mismatch": kw["server_hostname"] = "nomatch.test"
                info = dict(issuer=issuer, san=san, host=host, reqs=reqs, ah=ah, fp=fp, sh=sh, ctx=ctxkind)
                # ---- model
                if REQ[reqs] is not None: mode = reqs
                elif ctx is not None: mode = {ssl.CERT_REQUIRED: "REQUIRED", ssl.CERT_NONE: "NONE", ssl.CERT_OPTIONAL: "OPTIONAL"}[ctx.verify_mode]
                else: mode = "REQUIRED"
                chain_ok = issuer == "trusted"
                checked_name = kw.get("assert_hostname") or kw.get("server_hostname") or host
                demanded = []
                if fps[fp] is not None: demanded.append(("pin", fp in ("right", "right_colon_upper")))
                else:
                    if mode != "NONE" and ah != "False": demanded.append(("name", names_match(checked_name, san)))
                if mode == "REQUIRED": demanded.append(("chain", chain_ok))
                must_block = any(not ok for _, ok in demanded)
                either = (mode == "OPTIONAL" and not chain_ok)          # OpenSSL validates the chain in client mode for OPTIONAL too
                # ---- real
                OBS.clear()
                with warnings.catch_warnings(record=True) as w:
                    warnings.simplefilter("always")
                    try:
                        pool = urllib3.HTTPSConnectionPool(host, 443, **kw)
                        r = pool.urlopen("GET", "/"); out = "sent"
                    except SSLError: out = "SSLError"
                    except HTTPError as e: out = "err:" + type(e).__name__
                    except BaseException as e: out = "RAW:" + type(e).__name__
                t0 = time.time()
                while OBS and not OBS.get("done", True) and time.time() - t0 < 2: time.sleep(0.001)
                warned = any(issubclass(x.category, InsecureRequestWarning) for x in w)
                got_req = OBS.get("request", False)
                stats["runs"] += 1
                if must_block and got_req: note("SENT-DESPITE-FAILED-CHECK", dict(info, demanded=demanded, out=out))
                elif must_block and out == "sent": note("response-without-bytes?", info)
                elif must_block and out != "SSLError": note("blocked-but-not-SSLError:" + out, dict(info, demanded=demanded))
                elif (not must_block) and not got_req and not either: note("drift:rejected-though-all-demanded-pass:" + out, dict(info, demanded=demanded, checked=checked_name))
                if got_req:
                    verified_expected = (mode == "REQUIRED") or fps[fp] is not None
                    if (not verified_expected) and not warned: note("NO-WARNING-WHEN-UNVERIFIED", info)
                    if verified_expected and warned: note("drift:warned-though-verified", info)
for k, v in sorted(stats.items()):
    print(v, k)
    if k in ex: print("     ", ex[k])
os.unlink(capath)
