"""Scratch: bounded-preemption DFS over real urllib3 pool code with sys.monitoring LINE preemption."""
import sys, threading, types, queue, time, socket, ast, inspect, collections
sys.path.insert(0, "/repo/src")
import urllib3, urllib3.connectionpool as cp, urllib3.response as rp, urllib3.util.connection as uc
from urllib3.exceptions import HTTPError, ClosedPoolError, EmptyPoolError

TOOL = sys.monitoring.DEBUGGER_ID
sys.monitoring.use_tool_id(TOOL, "dfs")

def code_objects(mod):
    seen = set(); out = []
    def walk(co):
        if co in seen: return
        seen.add(co); out.append(co)
        for c in co.co_consts:
            if isinstance(c, types.CodeType): walk(c)
    for v in vars(mod).values():
        if isinstance(v, types.FunctionType) and v.__module__ == mod.__name__: walk(v.__code__)
        elif isinstance(v, type) and v.__module__ == mod.__name__:
            for m in vars(v).values():
                f = getattr(m, "__func__", m)
                if isinstance(f, types.FunctionType): walk(f.__code__)
                if isinstance(m, property):
                    for g in (m.fget, m.fset):
                        if g: walk(g.__code__)
    return out

def shared_lines(mod, names=("pool", "_put_conn", "_get_conn", "_connection", "_pool")):
    """lines whose AST mentions an attribute in `names` (shared-state touching)"""
    src = inspect.getsource(mod); tree = ast.parse(src); lines = set()
    for node in ast.walk(tree):
        if isinstance(node, ast.Attribute) and node.attr in names: lines.add(node.lineno)
    return lines
SHARED = {cp.__file__: shared_lines(cp), rp.__file__: shared_lines(rp)}

class Abort(BaseException): pass

class Sched:
    """one runnable thread at a time; decisions from `choices` (list of thread names); records yield points"""
    def __init__(self, prefix):
        self.prefix = list(prefix); self.sem = {}; self.main = threading.Semaphore(0)
        self.done = set(); self.blocked = {}; self.decisions = []; self.current = None; self.trace = []; self.enabled_at = []
    def yield_point(self, tag):
        name = threading.current_thread().name
        if name not in self.sem or self.current != name: return
        self.trace.append((name, tag))
        self.main.release(); self.sem[name].acquire()
    def block_until(self, pred, tag):
        name = threading.current_thread().name
        while not pred():
            self.blocked[name] = tag
            self.main.release(); self.sem[name].acquire()
        self.blocked.pop(name, None)
    def run(self, fns):
        ths = {}
        for name, fn in fns.items():
            self.sem[name] = threading.Semaphore(0)
            def body(fn=fn, name=name):
                self.sem[name].acquire()
                try: fn()
                except Abort: pass
                finally: self.done.add(name); self.main.release()
            ths[name] = threading.Thread(target=body, name=name, daemon=True); ths[name].start()
        names = sorted(fns); i = 0; deadlock = False
        while len(self.done) < len(names):
            runnable = [n for n in names if n not in self.done]
            # a blocked thread is schedulable (it re-checks its predicate); deadlock if all alive are blocked and none can progress
            if all(n in self.blocked for n in runnable):
                # try each once: if still all blocked afterwards -> deadlock
                progressed = False
                for n in runnable:
                    self.current = n; self.sem[n].release(); self.main.acquire()
                    if n not in self.blocked or n in self.done: progressed = True; break
                if not progressed: deadlock = True; break
                continue
            cand = [n for n in runnable if n not in self.blocked] 
            if i < len(self.prefix) and self.prefix[i] in cand: pick = self.prefix[i]
            else: pick = self.current if self.current in cand else cand[0]     # default: no preemption
            self.decisions.append(pick); self.enabled_at.append(cand); i += 1
            self.current = pick
            self.sem[pick].release(); self.main.acquire()
        return deadlock

S = None
def on_line(code, line):
    s = S
    if s is None: return
    if line in SHARED.get(code.co_filename, ()):
        s.yield_point((code.co_name, line))
sys.monitoring.register_callback(TOOL, sys.monitoring.events.LINE, on_line)
for mod in (cp, rp):
    for co in code_objects(mod): sys.monitoring.set_local_events(TOOL, co, sys.monitoring.events.LINE)

class CoopQueue(queue.LifoQueue):
    """LifoQueue with identical semantics whose blocking get cooperates with the scheduler"""
    def get(self, block=True, timeout=None):
        s = S
        if s is not None: s.yield_point(("queue.get", 0))
        if block and s is not None and threading.current_thread().name in s.sem:
            s.block_until(lambda: self.qsize() > 0, "queue.get")
        r = super().get(block=False)
        EVENTS.append((threading.current_thread().name, "get", id(r) if r is not None else None))
        return r
    def put(self, item, block=True, timeout=None):
        s = S
        if s is not None: s.yield_point(("queue.put", 0))
        super().put(item, block=False)
        EVENTS.append((threading.current_thread().name, "put", id(item) if item is not None else None))

EVENTS = []
class VS(socket.socket):
    def sendall(self, data, *a):
        EVENTS.append((threading.current_thread().name, "send", self.fileno()))
        r = super().sendall(data, *a)
        # inline peer: reply tagged with the requesting thread's name
        tag = threading.current_thread().name.encode()
        self.peer.sendall(b"HTTP/1.1 200 OK\r\nContent-Length: %d\r\n\r\n" % len(tag) + tag)
        return r
    def recv_into(self, *a, **k):
        EVENTS.append((threading.current_thread().name, "recv", self.fileno()))
        return super().recv_into(*a, **k)
PEERS = []
def cc(address, timeout=None, source_address=None, socket_options=None):
    a, b = socket.socketpair(); v = VS(a.family, a.type, a.proto, fileno=a.detach()); v.peer = b; PEERS.append(b); return v
uc.create_connection = cc

class Pool(cp.HTTPConnectionPool):
    QueueCls = CoopQueue

def one_run(prefix, maxsize, block, with_closer):
    global S
    EVENTS.clear()
    for b in PEERS: b.close()
    PEERS.clear()
    pool = Pool("h.test", 80, maxsize=maxsize, block=block, timeout=1, retries=False)
    res = {}
    def req(name):
        def f():
            try:
                r = pool.urlopen("GET", "/"); res[name] = ("ok", r.data)
            except HTTPError as e: res[name] = ("err", type(e).__name__)
            except Abort: raise
            except BaseException as e: res[name] = ("RAW", type(e).__name__, str(e)[:50])
        return f
    fns = {"T1": req("T1"), "T2": req("T2")}
    if with_closer: fns["K"] = lambda: pool.close()
    s = Sched(prefix); S = s
    deadlock = s.run(fns)
    S = None
    return s, res, deadlock, list(EVENTS)

def explore(maxsize, block, with_closer, bound, limit=20000):
    """DFS over preemption choices: a schedule = list of picks; branch where pick != default"""
    stack = [[]]; seen = 0; verdicts = collections.Counter(); ex = {}
    t0 = time.time()
    while stack and seen < limit:
        prefix = stack.pop()
        s, res, deadlock, events = one_run(prefix, maxsize, block, with_closer)
        seen += 1
        # verdict
        for name, r in res.items():
            if r[0] == "ok" and r[1] != name.encode(): verdicts["ForeignBytes"] += 1; ex.setdefault("ForeignBytes", (prefix, res))
            if r[0] == "RAW": verdicts["RAW:" + r[1]] += 1; ex.setdefault("RAW:" + r[1], (s.decisions, res))
            if r[0] == "err" and not (with_closer and r[1] == "ClosedPoolError"): verdicts["Err:" + r[1]] += 1; ex.setdefault("Err:" + r[1], (s.decisions, res))
        if deadlock: verdicts["DEADLOCK"] += 1; ex.setdefault("DEADLOCK", (s.decisions, res, dict(s.blocked)))
        # exclusive use: between get(conn) and put(conn) by thread t, no other thread does io on sockets... (simplified: foreign bytes check)
        verdicts["schedules"] += 1
        # branch: positions after the given prefix where another thread was enabled; count preemptions
        d = s.decisions; en = s.enabled_at
        def preemptions(seq):
            return sum(1 for i in range(1, len(seq)) if seq[i] != seq[i-1] and seq[i-1] in en[i])
        for i in range(len(prefix), len(d)):
            for alt in en[i]:
                if alt != d[i]:
                    cand = d[:i] + [alt]
                    if preemptions(cand + [alt]) <= bound: stack.append(cand)
    return seen, time.time() - t0, verdicts, ex

for (maxsize, block, closer, bound) in [(1, False, False, 2), (1, True, False, 2), (1, False, True, 2), (1, True, True, 2)]:
    seen, dt, v, ex = explore(maxsize, block, closer, bound)
    print(f"maxsize={maxsize} block={block} closer={closer} bound={bound}: {seen} schedules in {dt:.1f}s ->", dict(v))
    for k, e in ex.items(): print("    ", k, e)
