"""Scratch feasibility: line-level controlled scheduling of real threads on urllib3 code with sys.monitoring."""
import sys, threading, types, queue, time
sys.path.insert(0, "/repo/src")
import urllib3.connectionpool as cp

TOOL = sys.monitoring.DEBUGGER_ID
def code_objects(mod):
    seen=set(); out=[]
    def walk(co):
        if co in seen: return
        seen.add(co); out.append(co)
        for c in co.co_consts:
            if isinstance(c, types.CodeType): walk(c)
    for v in vars(mod).values():
        if isinstance(v, types.FunctionType) and v.__module__ == mod.__name__: walk(v.__code__)
        elif isinstance(v, type) and v.__module__ == mod.__name__:
            for m in vars(v).values():
                f = getattr(m, "__func__", m)
                if isinstance(f, types.FunctionType): walk(f.__code__)
                if isinstance(m, property):
                    for g in (m.fget, m.fset):
                        if g: walk(g.__code__)
    return out

class Sched:
    def __init__(self, schedule):
        self.schedule = list(schedule)  # list of thread names to run at each step
        self.sems = {}
        self.trace = []
        self.done = set()
        self.lock = threading.Lock()
        self.main = threading.Semaphore(0)
        self.current = None
    def on_line(self, code, line):
        name = threading.current_thread().name
        if name not in self.sems: return
        self.trace.append((name, code.co_name, line))
        # yield to scheduler
        self.main.release()
        self.sems[name].acquire()
    def run(self, fns):
        ths = {}
        for name, fn in fns.items():
            self.sems[name] = threading.Semaphore(0)
            def body(fn=fn, name=name):
                self.sems[name].acquire()
                try: fn()
                finally:
                    self.done.add(name); self.main.release()
            ths[name] = threading.Thread(target=body, name=name); ths[name].start()
        steps = 0
        i = 0
        names = list(fns)
        while len(self.done) < len(fns):
            # pick
            cand = [n for n in names if n not in self.done]
            pick = self.schedule[i] if i < len(self.schedule) and self.schedule[i] in cand else cand[0]
            i += 1
            self.sems[pick].release()
            self.main.acquire()
            steps += 1
        for t in ths.values(): t.join()
        return steps

sys.monitoring.use_tool_id(TOOL, "sched")
cos = code_objects(cp)
print(len(cos), "code objects")
S = None
def cb(code, line):
    if S: S.on_line(code, line)
sys.monitoring.register_callback(TOOL, sys.monitoring.events.LINE, cb)
for co in cos: sys.monitoring.set_local_events(TOOL, co, sys.monitoring.events.LINE)

pool = cp.HTTPConnectionPool("h", 80, maxsize=1, block=False)
res = {}
def t1():
    try:
        c = pool._get_conn(); res["t1"]="got"; pool._put_conn(c)
    except Exception as e: res["t1"]=type(e).__name__
def t2():
    pool.close(); res["t2"]="closed"
t0=time.time()
S = Sched(["A","A","A","A","B","B","B","B","B","B","B","B","B","A"]*3)
n = S.run({"A": t1, "B": t2})
print(n, "steps", time.time()-t0, res)
print(S.trace[:30])
