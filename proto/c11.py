"""Recon: request body framing exactness (first attempt) and identity across re-send, bare pool + PoolManager."""
import sys, socket, io, array, itertools, collections, tempfile, os
sys.path.insert(0, "/repo/src")
import urllib3, urllib3.util.connection as uc
from urllib3.util.retry import Retry
from urllib3.exceptions import HTTPError, UnrewindableBodyError
WIRES = []     # per attempt: (method, framing, payload)
SCRIPT = []
class VS(socket.socket):
    buf = b""
    def sendall(self, data, *a):
        self.buf += bytes(data)
        self.try_parse()
    def try_parse(self):
        while b"\r\n\r\n" in self.buf:
            head, _, rest = self.buf.partition(b"\r\n\r\n")
            lines = head.split(b"\r\n"); m = lines[0].split(b" ")[0].decode()
            hd = collections.OrderedDict()
            for l in lines[1:]:
                k, _, v = l.partition(b": "); hd.setdefault(k.decode().lower(), []).append(v.decode())
            if "content-length" in hd and "transfer-encoding" in hd: framing = "BOTH"
            elif "content-length" in hd:
                n = int(hd["content-length"][0])
                if len(rest) < n: return
                payload, rest = rest[:n], rest[n:]; framing = "cl" if len(hd["content-length"]) == 1 else "DUPCL"
            elif "transfer-encoding" in hd:
                payload = b""; r = rest
                while True:
                    if b"\r\n" not in r: return
                    szl, _, r2 = r.partition(b"\r\n"); n = int(szl, 16)
                    if n == 0:
                        if not r2.startswith(b"\r\n"): return
                        r = r2[2:]; break
                    if len(r2) < n + 2: return
                    payload += r2[:n]; r = r2[n+2:]
                rest = r; framing = "chunked"
            else: payload = b""; framing = "none"
            self.buf = rest
            WIRES.append((m, framing, payload))
            reply = SCRIPT.pop(0) if SCRIPT else "ok"
            if reply == "ok": self.peer.sendall(b"HTTP/1.1 200 OK\r\nContent-Length: 2\r\n\r\nok")
            elif reply == "503": self.peer.sendall(b"HTTP/1.1 503 X\r\nContent-Length: 0\r\n\r\n")
            elif reply in ("307", "308", "303"): self.peer.sendall(b"HTTP/1.1 %s X\r\nLocation: /again\r\nContent-Length: 0\r\n\r\n" % reply.encode())
            elif reply == "eof": self.peer.shutdown(socket.SHUT_WR)
def cc(address, timeout=None, source_address=None, socket_options=None):
    a, b = socket.socketpair(); b.setsockopt(socket.SOL_SOCKET, socket.SO_SNDBUF, 1 << 21); a.setsockopt(socket.SOL_SOCKET, socket.SO_SNDBUF, 1 << 21)
    v = VS(a.family, a.type, a.proto, fileno=a.detach()); v.peer = b; KEEP.append(b); return v
KEEP = []
uc.create_connection = cc
BS = 16384
def bodies(size):
    data = bytes((i * 31 + 7) % 256 for i in range(size)); text = ("aé" * size)[:size]
    tf = tempfile.NamedTemporaryFile(delete=False); tf.write(b"XX" + data); tf.close()
    class NoTell:
        def __init__(s, d): s.b = io.BytesIO(d)
        def read(s, n=-1): return s.b.read(n)
    class BadSeek(io.BytesIO):
        def seek(s, *a): raise OSError("no seek")
    def gen():
        yield data[: size // 2]; yield b""; yield data[size // 2 :]
    yield "none", (lambda: None), b""
    yield "bytes", (lambda: data), data
    yield "str", (lambda: text), text.encode("utf-8")
    yield "bytearray", (lambda: bytearray(data)), data
    yield "memoryview", (lambda: memoryview(data)), data
    yield "array", (lambda: array.array("B", data)), data
    yield "BytesIO", (lambda: io.BytesIO(data)), data
    yield "BytesIO@2", (lambda: (f := io.BytesIO(b"XX" + data), f.seek(2), f)[2]), data
    yield "realfile@2", (lambda: (f := open(tf.name, "rb"), f.seek(2), f)[2]), data
    yield "StringIO", (lambda: io.StringIO(text)), text.encode("utf-8")
    yield "notell", (lambda: NoTell(data)), data
    yield "badseek", (lambda: BadSeek(data)), data
    yield "list", (lambda: [data[: size // 2], b"", data[size // 2 :]]), data
    yield "gen", gen, data
    yield "liststr", (lambda: [text[: size // 2], text[size // 2 :]]), text.encode("utf-8")
stats = collections.Counter(); ex = {}
def note(k, info): stats[k] += 1; ex.setdefault(k, info)
NOBODY = {"GET", "HEAD", "DELETE", "OPTIONS", "TRACE"}
for size in (0, 1, BS - 1, BS, BS + 1, 3 * BS + 5):
  for kind, mk, expect in bodies(size):
    for method in ("GET", "POST", "PUT", "DELETE", "PATCH"):
      for chunked in (False, True):
        for hist in (["ok"], ["eof", "ok"], ["503", "ok"], ["307", "ok"], ["308", "ok"], ["303", "ok"]):
          for client in ("pool", "pm"):
            if len(hist) > 1 and (size not in (0, 1, BS + 1) or chunked): continue
            WIRES.clear(); SCRIPT[:] = hist
            for b in KEEP: b.close()
            KEEP.clear()
            info = dict(size=size, kind=kind, method=method, chunked=chunked, hist=hist, client=client)
            retries = Retry(3, status_forcelist=[503], allowed_methods=None)
            try:
                if client == "pool":
                    out = urllib3.HTTPConnectionPool("h.test", 80, timeout=0.5).urlopen(method, "/", body=mk(), chunked=chunked, retries=retries)
                else:
                    out = urllib3.PoolManager(timeout=0.5).urlopen(method, "http://h.test/", body=mk(), chunked=chunked, retries=retries)
                res = "resp"
            except UnrewindableBodyError: res = "Unrewindable"
            except HTTPError as e: res = "err:" + type(e).__name__
            except BaseException as e: res = "RAW:" + type(e).__name__; note(res + ":" + kind + ":" + hist[0], dict(info, err=str(e)[:80]))
            if not WIRES: note("nothing-sent", info); continue
            m0, f0, p0 = WIRES[0]
            # framing on first attempt
            if kind == "none":
                want = "chunked" if chunked else ("none" if method in NOBODY else "cl")
                if f0 != want or p0 != b"": note("Framing:none-body", dict(info, got=(f0, len(p0))))
            else:
                if f0 not in ("cl", "chunked"): note("Framing:" + f0, info)
                if p0 != expect: note("Payload:first:" + kind, dict(info, got=len(p0), want=len(expect)))
            # resend identity
            if len(hist) > 1:
                if hist[0] == "303":
                    if len(WIRES) > 1 and (WIRES[1][0] != "GET" or WIRES[1][2] != b""): note("303:not-bodyless-GET", dict(info, w=WIRES[1][:2]))
                else:
                    if len(WIRES) > 1:
                        if WIRES[1][2] != p0: note("BodyIdentical:" + kind + ":" + hist[0] + ":" + client, dict(info, first=len(p0), second=len(WIRES[1][2])))
                    elif res != "Unrewindable" and not res.startswith("RAW"): note("no-second-attempt:" + res, info)
            stats["runs"] += 1
for k, v in sorted(stats.items()):
    print(v, k)
    if k in ex: print("     ", ex[k])
