"""Recon: match_hostname vs three-valued RFC 6125 rules over a small label alphabet."""
import sys, itertools, collections
sys.path.insert(0, "/repo/src")
from urllib3.util.ssl_match_hostname import match_hostname, CertificateError
LABELS = ["a", "b", "ab", "*", "a*", "*a", "a*b", "**", "xn--a", "xn--*", ""]
def names(maxl):
    for n in range(1, maxl + 1):
        for t in itertools.product(LABELS, repeat=n):
            yield ".".join(t)
def rule(dn, host):
    """returns 'accept' | 'reject' | 'either' for one DNS SAN entry vs DNS host"""
    dl = dn.split("."); hl = host.split(".")
    if dn == "": return "reject"
    import fnmatch, re as _re
    def lib(d, h):
        pat = "".join("[^.]*" if ch == "*" else _re.escape(ch) for ch in d)
        return _re.fullmatch(pat, h, _re.I) is not None
    if len(dl) != len(hl) or not all(lib(d, h) for d, h in zip(dl, hl)):
        return "reject"          # no reading, however liberal, accepts
    if "*" in host:
        return "either"          # a reference identity containing '*' is not a hostname
    stars_left = dl[0].count("*"); stars_rest = sum(x.count("*") for x in dl[1:])
    host_has_star = "*" in host
    if stars_left + stars_rest == 0:
        if dn.lower() == host.lower(): return "accept" if not host_has_star else "either"
        return "reject"
    # dn contains a wildcard somewhere
    if stars_left > 1: return "reject"                       # more than one wildcard
    if stars_rest > 0:
        # wildcard outside left-most label must not act as a wildcard; literal identity is 'either'
        return "either" if dn.lower() == host.lower() else "reject"
    # exactly one star, in the left-most label
    if len(dl) != len(hl): return "reject"                     # never spans dots
    if [x.lower() for x in dl[1:]] != [x.lower() for x in hl[1:]]: return "reject"
    left = dl[0]
    if left == "*":
        if hl[0] == "": return "reject"                          # empty label
        if hl[0].lower().startswith("xn--"): return "either"     # whole-label wildcard vs A-label host: RFC silent
        return "accept" if "*" not in hl[0] else "either"
    if left.lower().startswith("xn--") or hl[0].lower().startswith("xn--"):
        return "either" if dn.lower() == host.lower() else "reject"   # wildcard inside IDN label never matches as wildcard
    # partial wildcard: allowed by RFC 6125 but optional
    pre, post = left.split("*")
    h = hl[0]
    if h.lower().startswith(pre.lower()) and h.lower().endswith(post.lower()) and len(h) >= len(pre) + len(post):
        return "either"
    return "reject"
stats = collections.Counter(); ex = {}
hosts = list(names(3)); dns = list(names(3))
for dn in dns:
    cert = {"subjectAltName": (("DNS", dn),)}
    for host in hosts:
        try:
            match_hostname(cert, host); got = "accept"
        except CertificateError: got = "reject"
        except Exception as e: got = "RAW:" + type(e).__name__
        exp = rule(dn, host)
        if got.startswith("RAW"): stats[got] += 1; ex.setdefault(got, (dn, host))
        elif exp != "either" and got != exp:
            k = f"exp-{exp}-got-{got}"; stats[k] += 1; ex.setdefault(k, (dn, host))
        else: stats["ok-" + exp] += 1
for k, v in sorted(stats.items()): print(v, k, ex.get(k))
