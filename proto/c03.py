"""Recon: a response only contains bytes sent for its own request (tagged bodies), keep-alive reuse, caller behaviours."""
import sys, socket, itertools, collections, gc
sys.path.insert(0, "/repo/src")
import urllib3, urllib3.util.connection as uc
from urllib3.exceptions import HTTPError
REQN = [0]
PLAN = {}     # request index -> server behaviour
class VS(socket.socket):
    buf = b""
    def sendall(self, data, *a):
        self.buf += bytes(data)
        while b"\r\n\r\n" in self.buf:
            head, _, self.buf = self.buf.partition(b"\r\n\r\n")
            m = head.split(b" ")[0].decode()
            rid = int(head.split(b"/r")[1].split(b" ")[0])
            SEEN.append((rid, id(self)))
            beh = PLAN[rid]
            body = (b"<r%d>" % rid) * 40          # every 4-5 bytes carry the id
            self.served = getattr(self, "served", 0) + 1
            try:
                if beh == "cl": self.peer.sendall(b"HTTP/1.1 200 OK\r\nContent-Length: %d\r\n\r\n" % len(body) + body)
                elif beh == "chunked":
                    self.peer.sendall(b"HTTP/1.1 200 OK\r\nTransfer-Encoding: chunked\r\n\r\n" + b"".join(b"%x\r\n%s\r\n" % (len(body[i:i+37]), body[i:i+37]) for i in range(0, len(body), 37)) + b"0\r\n\r\n")
                elif beh == "close": self.peer.sendall(b"HTTP/1.1 200 OK\r\nConnection: close\r\n\r\n" + body); self.peer.shutdown(socket.SHUT_WR)
                elif beh == "cl_then_close": self.peer.sendall(b"HTTP/1.1 200 OK\r\nContent-Length: %d\r\n\r\n" % len(body) + body); self.peer.shutdown(socket.SHUT_WR)
                elif beh == "204_extra": self.peer.sendall(b"HTTP/1.1 204 No\r\n\r\n" + b"<stray r%d>" % rid)
                elif beh == "204_extra_http": self.peer.sendall(b"HTTP/1.1 204 No\r\n\r\n" + b"HTTP/1.1 200 OK\r\nContent-Length: 9\r\n\r\n<evil r%d>" % rid)
                elif beh == "304_cl_body": self.peer.sendall(b"HTTP/1.1 304 NM\r\nContent-Length: 8\r\n\r\n<304 r%d>" % rid)
                elif beh == "short_eof": self.peer.sendall(b"HTTP/1.1 200 OK\r\nContent-Length: 500\r\n\r\n" + body[:50]); self.peer.shutdown(socket.SHUT_WR)
                elif beh == "big": self.peer.sendall(b"HTTP/1.1 200 OK\r\nContent-Length: %d\r\n\r\n" % (len(body) * 500) + body * 500)
            except OSError: pass
def cc(address, timeout=None, source_address=None, socket_options=None):
    a, b = socket.socketpair(); b.setsockopt(socket.SOL_SOCKET, socket.SO_SNDBUF, 1 << 20)
    v = VS(a.family, a.type, a.proto, fileno=a.detach()); v.peer = b; KEEP.append(b); return v
KEEP = []; SEEN = []
uc.create_connection = cc
BEH = ["cl", "chunked", "close", "cl_then_close", "204_extra", "204_extra_http", "304_cl_body", "short_eof", "big"]
CALL = ["read", "read7_release", "release", "drain", "close_release", "stream", "keep_unread"]
stats = collections.Counter(); ex = {}
def note(k, info): stats[k] += 1; ex.setdefault(k, info)
def own(data, rid):
    import re
    ids = set(re.findall(rb"r(\d+)>", data)); 
    return ids <= {str(rid).encode()}
def run(seq, maxsize):
    for b in KEEP: b.close()
    KEEP.clear(); SEEN.clear(); PLAN.clear()
    pool = urllib3.HTTPConnectionPool("h.test", 80, maxsize=maxsize, timeout=0.05, retries=1)
    held = []
    for rid, (beh, call) in enumerate(seq):
        PLAN[rid] = beh; PLAN[rid + 100] = beh
        info = dict(seq=seq, maxsize=maxsize, at=rid)
        try:
            r = pool.urlopen("GET", "/r%d " % rid if False else "/r%d" % rid, preload_content=False)
        except HTTPError as e:
            stats["req-error:" + type(e).__name__] += 1; continue
        except BaseException as e:
            note("RAW:" + type(e).__name__, dict(info, err=str(e)[:80])); continue
        got = b""
        try:
            if call == "read": got = r.read()
            elif call == "read7_release": got = r.read(7); r.release_conn()
            elif call == "release": r.release_conn()
            elif call == "drain": r.drain_conn()
            elif call == "close_release": r.close(); r.release_conn()
            elif call == "stream": got = b"".join(r.stream(16, decode_content=True))
            elif call == "keep_unread": held.append(r); r.release_conn()
        except HTTPError as e: stats["read-error:" + type(e).__name__] += 1
        except BaseException as e: note("RAW-read:" + type(e).__name__, dict(info, err=str(e)[:80]))
        if not own(got, rid): note("ForeignBytes", dict(info, got=got[:80]))
        if r.status not in (200, 204, 304): note("WeirdStatus", dict(info, status=r.status))
        if call != "keep_unread": del r
    stats["runs"] += 1
for maxsize in (1, 2):
    for seq in itertools.product(itertools.product(BEH, CALL), repeat=2):
        run(list(seq) + [("cl", "read")], maxsize)
for k, v in sorted(stats.items()):
    print(v, k)
    if k in ex: print("     ", ex[k])
