"""Recon: truncation/corruption never presented as complete; per (framing, coding, api) list silent accepts."""
import sys, socket, io, gzip, zlib, random, collections
sys.path.insert(0, "/repo/src")
import urllib3
from urllib3.connection import HTTPConnection
from urllib3.exceptions import HTTPError
import zstandard as zstd
payload = bytes((i * 7) % 251 for i in range(150))
def enc(c):
    return {"identity": payload, "gzip": gzip.compress(payload), "deflate": zlib.compress(payload), "zstd": zstd.compress(payload)}[c]
def mk(wire, preload=False):
    c, s = socket.socketpair(); conn = HTTPConnection("h", 80); conn.sock = c
    conn.request("GET", "/", preload_content=preload); s.recv(65536); s.sendall(wire); s.close()
    return conn.getresponse()
def drive(r, api):
    if api == "read": return r.read()
    if api == "read7":
        out = b""
        while True:
            d = r.read(7)
            if not d: return out
            out += d
    if api == "read1":
        out = b""
        while True:
            d = r.read1(9)
            if not d: return out
            out += d
    if api == "stream": return b"".join(r.stream(16, decode_content=True))
    if api == "chunked": return b"".join(r.read_chunked(16, decode_content=True))
    if api == "iter": return b"".join(r)
    if api == "readinto":
        out = b""; b = bytearray(11)
        while True:
            n = r.readinto(b)
            if not n: return out
            out += b[:n]
res = collections.OrderedDict()
for coding in ["identity", "gzip", "deflate", "zstd"]:
    body = enc(coding)
    ce = b"" if coding == "identity" else b"Content-Encoding: " + coding.encode() + b"\r\n"
    for framing in ["cl", "chunked"]:
        if framing == "cl":
            wire = b"HTTP/1.1 200 OK\r\n" + ce + b"Content-Length: %d\r\n\r\n" % len(body) + body
            must_end = len(wire)          # any cut < len(wire) must raise
        else:
            chunks = b""; i = 0
            for n in (40, 1, 60, 10**6):
                part = body[i:i+n]; i += n
                if part: chunks += b"%x\r\n" % len(part) + part + b"\r\n"
            wire = b"HTTP/1.1 200 OK\r\n" + ce + b"Transfer-Encoding: chunked\r\n\r\n" + chunks + b"0\r\n\r\n"
            must_end = len(wire) - 5 + 1   # cut before the '0' of last chunk must raise ; i.e. cut <= len-5
        hdr = wire.index(b"\r\n\r\n") + 4
        for api in ["read", "read7", "read1", "stream", "iter", "readinto", "preload"] + (["chunked"] if framing == "chunked" else []):
            silent = []; raw = []
            for cut in range(hdr, len(wire)):
                must = cut < must_end if framing == "cl" else cut <= len(wire) - 5
                try:
                    if api == "preload":
                        r = mk(wire[:cut], preload=True); out = r.data
                    else:
                        r = mk(wire[:cut]); out = drive(r, api)
                    if must: silent.append(cut - hdr)
                except HTTPError: pass
                except Exception as e: raw.append((cut - hdr, type(e).__name__))
            res[(coding, framing, api)] = (silent, raw)
for k, (silent, raw) in res.items():
    if silent or raw: print(k, "SILENT", silent[:10], len(silent), "RAW", raw[:5], len(raw))
print("cells", len(res), "clean", sum(1 for s, r in res.values() if not s and not r))
# corruption of chunk-size line and compressed stream
bad = collections.Counter()
body = enc("gzip")
wire = b"HTTP/1.1 200 OK\r\nContent-Encoding: gzip\r\nTransfer-Encoding: chunked\r\n\r\n" + b"%x\r\n" % len(body) + body + b"\r\n0\r\n\r\n"
hdr = wire.index(b"\r\n\r\n") + 4
for pos in range(hdr, hdr + len(b"%x" % len(body))):
    for repl in (b"g", b" ", b"-", b"\x00"):
        w = wire[:pos] + repl + wire[pos+1:]
        for api in ["read", "read7", "stream", "chunked", "iter"]:
            try:
                out = drive(mk(w), api); bad[("chunksize-silent", api, repl, out == payload)] += 1
            except HTTPError: pass
            except Exception as e: bad[("chunksize-RAW", api, type(e).__name__)] += 1
for pos in range(hdr + 4, hdr + 4 + len(body)):
    w = bytearray(wire); w[pos] ^= 0x55; w = bytes(w)
    for api in ["read", "read7", "stream", "iter"]:
        try:
            out = drive(mk(w), api)
            if out != payload: bad[("gzipcorrupt-silent-wrongdata", api)] += 1
        except HTTPError: pass
        except Exception as e: bad[("gzipcorrupt-RAW", api, type(e).__name__)] += 1
for k, v in bad.items(): print(k, v)
print("---- detail")
import traceback
for repl in (b"g", b" ", b"-", b"\x00", b"+", b"_"):
    w = wire[:hdr] + repl + wire[hdr+1:]
    for api in ["read", "chunked"]:
        try:
            out = drive(mk(w), api); print(repl, api, "silent", out == payload, len(out))
        except HTTPError as e: print(repl, api, "HTTPError", type(e).__name__)
        except Exception as e:
            print(repl, api, "RAW", type(e).__name__, e); 
            tb = traceback.extract_tb(e.__traceback__); print("   at", [(f.name, f.lineno) for f in tb[-3:]])
print(wire[hdr:hdr+6])
