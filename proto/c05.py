"""Recon: redirect budget + header stripping rules vs real PoolManager / bare pool (http only, in-memory)."""
import sys, socket, itertools, collections, threading
sys.path.insert(0, "/repo/src")
import urllib3, urllib3.util.connection as uc
from urllib3.util.retry import Retry
from urllib3.exceptions import MaxRetryError, HTTPError, HostChangedError
from urllib3 import HTTPHeaderDict
LOG = []        # (origin, method, target, headers dict lower->list, body)
GRAPH = {}      # (origin, path) -> (code, location) | None
class VS(socket.socket):
    buf = b""
    def sendall(self, data, *a):
        self.buf += bytes(data)
        while b"\r\n\r\n" in self.buf:
            head, _, rest = self.buf.partition(b"\r\n\r\n")
            lines = head.split(b"\r\n"); m, t, _v = lines[0].split(b" ")
            hd = collections.OrderedDict()
            for l in lines[1:]:
                k, _, v = l.partition(b": "); hd.setdefault(k.decode().lower(), []).append(v.decode())
            cl = int(hd.get("content-length", ["0"])[0])
            if len(rest) < cl: return
            body, self.buf = rest[:cl], rest[cl:]
            LOG.append((self.origin, m.decode(), t.decode(), hd, body))
            node = GRAPH.get((self.origin, t.decode().split("?")[0]))
            if node:
                code, loc = node
                self.peer.sendall(b"HTTP/1.1 %d R\r\nLocation: %s\r\nContent-Length: 0\r\n\r\n" % (code, loc.encode()))
            else:
                self.peer.sendall(b"HTTP/1.1 200 OK\r\nContent-Length: 2\r\n\r\nok")
def cc(address, timeout=None, source_address=None, socket_options=None):
    a, b = socket.socketpair(); v = VS(a.family, a.type, a.proto, fileno=a.detach()); v.peer = b; v.origin = "%s:%d" % address; KEEP.append(b); return v
KEEP = []
uc.create_connection = cc

def origin_of(url, cur):
    from urllib.parse import urlsplit, urljoin
    u = urlsplit(urljoin(cur, url)); port = u.port or (443 if u.scheme == "https" else 80)
    return "%s:%d" % (u.hostname.lower(), port), u.scheme

POLICIES = {"None": None, "False": False, "0": 0, "1": 1, "2": 2, "R(redirect=0)": Retry(redirect=0), "R(redirect=1)": Retry(redirect=1), "R(total=1)": Retry(total=1),
            "R(redirect=1,raise=F)": Retry(redirect=1, raise_on_redirect=False), "R(redirect=0,raise=F)": Retry(redirect=0, raise_on_redirect=False)}
def budget(pol):
    """returns (max_redirects or inf, returns3xx_instead_of_raise)"""
    inf = 99
    if pol is None: return 3, False
    if pol is False: return 0, True
    if isinstance(pol, int): return pol, False
    r = pol.redirect; t = pol.total
    if r is False or t is False: return 0, True
    b = min(x for x in (r if r is not None else inf, t if t is not None else inf))
    return b, not pol.raise_on_redirect

stats = collections.Counter(); ex = {}
def note(k, info): stats[k] += 1; ex.setdefault(k, info)

def scenario(client, placement, polname, code, chainlen, loc_form, cross, method, hdr_spelling, carrier, redirect_flag=True):
    LOG.clear(); GRAPH.clear()
    for b in KEEP: b.close()
    KEEP.clear()
    pol = POLICIES[polname]
    # build chain a0 -> a1 -> ... -> 200 ; cross: alternate origins
    origins = ["a.test:80", "b.test:80", "a.test:8080"]
    nodes = []
    for i in range(chainlen + 1):
        o = origins[i % 3] if cross else origins[0]
        nodes.append((o, "/p%d" % i))
    for i in range(chainlen):
        (o, p), (o2, p2) = nodes[i], nodes[i + 1]
        host2, port2 = o2.split(":")
        if o2 == o and loc_form == "relative": loc = p2
        elif loc_form == "schemerel": loc = "//%s:%s%s" % (host2, port2, p2)
        else: loc = "http://%s%s%s" % (host2, "" if port2 == "80" else ":" + port2, p2)
        GRAPH[(o, p)] = (code, loc)
    sens = {"Authorization": "secret", "Cookie": "c=1"}; other = {"X-Other": "1", "Content-Type": "text/plain"}
    spell = {"canon": lambda s: s, "lower": str.lower, "upper": str.upper}[hdr_spelling]
    hdrs = {spell(k): v for k, v in {**sens, **other}.items()}
    if carrier == "hdict": hdrs = HTTPHeaderDict(hdrs)
    kw_client = {}; kw_req = {}
    if placement == "request": kw_req["retries"] = pol
    elif polname != "None": kw_client["retries"] = pol
    if not redirect_flag: kw_req["redirect"] = False
    body = b"payload" if method in ("POST", "PUT") else None
    if client == "pm":
        if carrier == "default": c = urllib3.PoolManager(headers=hdrs, **kw_client); hk = {}
        else: c = urllib3.PoolManager(**kw_client); hk = {"headers": hdrs}
        call = lambda: c.urlopen(method, "http://a.test/p0", body=body, **hk, **kw_req)
    else:
        c = urllib3.HTTPConnectionPool("a.test", 80, headers=hdrs if carrier == "default" else None, **kw_client)
        hk = {} if carrier == "default" else {"headers": hdrs}
        call = lambda: c.urlopen(method, "/p0", body=body, **hk, **kw_req)
    info = dict(client=client, placement=placement, pol=polname, code=code, chain=chainlen, loc=loc_form, cross=cross, method=method, spell=hdr_spelling, carrier=carrier, redirect=redirect_flag)
    try:
        r = call(); out = ("resp", r.status)
    except MaxRetryError as e: out = ("MaxRetry",)
    except HostChangedError: out = ("HostChanged",)
    except HTTPError as e: out = ("err", type(e).__name__)
    except BaseException as e: out = ("RAW", type(e).__name__, str(e)[:60]); note("RAW:" + type(e).__name__, info)
    followed = len(LOG) - 1
    B, returns3xx = budget(pol)
    if not redirect_flag: B, returns3xx = 0, True
    info2 = dict(info, out=out, followed=followed, log=[(o, m, t) for o, m, t, h, b in LOG])
    if client == "pool" and cross:
        # single-host pool must refuse cross-host redirect (if it gets that far within budget)
        if any(o != "a.test:80" for o, *_ in LOG): note("SingleHostContactedOther", info2)
    if followed > B: note("RedirectBudgetExceeded:" + placement + ":" + client, info2)
    if followed < min(B, chainlen) and not (client == "pool" and cross): note("drift:followed-less-than-budget", info2)
    if chainlen > B and not (client == "pool" and cross):
        if returns3xx and out[0] != "resp": note("ExhaustionShape:expected-3xx", info2)
        if (not returns3xx) and out[0] != "MaxRetry": note("ExhaustionShape:expected-MaxRetry", info2)
    # per-hop rules
    cur_origin = "a.test:80"; tainted = False; cur_method = method
    for i, (o, m, t, h, b) in enumerate(LOG):
        if i > 0:
            prev_code = code
            if prev_code == 303:
                if m != "GET" or b or "content-type" in h or "content-length" in h and h["content-length"] != ["0"]: note("SeeOtherRewrites", dict(info2, hop=i, m=m, b=b, h=list(h)))
                cur_method = "GET"
            else:
                if m != cur_method or (b or None) != (body if cur_method == method else None): note("OthersKeepMethodBody", dict(info2, hop=i, m=m, b=b))
            if o != cur_origin: tainted = True
            cur_origin = o
            if tainted and ("authorization" in h or "cookie" in h): note("SensitiveStripped", dict(info2, hop=i, h=list(h)))
            if "x-other" not in h: note("OthersPreserved", dict(info2, hop=i, h=list(h)))
            if t != "/p%d" % i: note("RelativeResolved", dict(info2, hop=i, t=t))
    stats["runs"] += 1

for client in ("pm", "pool"):
  for placement in ("request", "client"):
    for polname in POLICIES:
      for code in (301, 302, 303, 307, 308):
        for chainlen in (1, 2, 3):
          for loc_form in ("absolute", "relative", "schemerel"):
            for cross in (False, True):
              if client == "pool" and loc_form != "absolute" and cross: continue
              for method in ("GET", "POST"):
                scenario(client, placement, polname, code, chainlen, loc_form, cross, method, "canon", "dict")
for spelling in ("canon", "lower", "upper"):
    for carrier in ("dict", "hdict", "default"):
        for code in (302, 307):
            scenario("pm", "request", "None", code, 3, "absolute", True, "GET", spelling, carrier)
scenario("pm", "request", "None", 302, 2, "absolute", True, "GET", "canon", "dict", redirect_flag=False)
for k, v in sorted(stats.items()):
    print(v, k)
    if k != "runs": print("      ", ex[k])
