import sys; sys.path.insert(0,"/tmp/exp")
from net2 import *
import threading, urllib3
from urllib3.util.retry import Retry

def serve(sock, responses, seen):
    """read requests one by one (until blank line; assumes no body), reply scripted."""
    f = sock.makefile("rb")
    for r in responses:
        req = b""
        while True:
            line = f.readline()
            if not line: return
            req += line
            if line == b"\r\n": break
        seen.append(req.split(b"\r\n")[0] + b" | " + [l for l in req.split(b"\r\n") if l.lower().startswith(b"host")][0])
        sock.sendall(r)

def R(status, loc=None, body=b""):
    h = b"HTTP/1.1 %d X\r\nContent-Length: %d\r\n" % (status, len(body))
    if loc: h += b"Location: " + loc + b"\r\n"
    return h + b"\r\n" + body

import socket as _s
def run(pm_kw, req_kw):
    seen=[]
    orig = net.create_connection
    def cc(address, *a, **k):
        c, s = _s.socketpair()
        host = address[0]
        if host == "a.test":
            resp=[R(302, b"http://b.test/x")]
        else:
            resp=[R(200, body=b"secret")]
        threading.Thread(target=serve, args=(s, resp, seen), daemon=True).start()
        return c
    uc.create_connection = cc
    pm = urllib3.PoolManager(**pm_kw)
    try:
        r = pm.request("GET", "http://a.test/", **req_kw)
        print(pm_kw, req_kw, "->", r.status, r.data, seen)
    except Exception as e:
        print(pm_kw, req_kw, "-> EXC", type(e).__name__, e, seen)

run({}, {})
run({}, {"retries": False})
run({"retries": False}, {})
run({}, {"retries": Retry(redirect=0)})
run({"retries": Retry(redirect=0)}, {})
run({"retries": Retry(redirect=0, raise_on_redirect=False)}, {})
run({}, {"redirect": False})
run({"retries": 0}, {})
run({}, {"retries": 0})
