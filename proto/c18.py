import sys, inspect, ssl, socket
sys.path.insert(0, "/repo/src")
import urllib3
from urllib3.poolmanager import PoolKey, PoolManager
from urllib3.connectionpool import HTTPConnectionPool, HTTPSConnectionPool
from urllib3.connection import HTTPConnection, HTTPSConnection
from urllib3.util.retry import Retry
from urllib3.util.timeout import Timeout
def kws(c): return {n for n, p in inspect.signature(c.__init__).parameters.items() if n not in ("self",) and p.kind not in (p.VAR_KEYWORD, p.VAR_POSITIONAL)}
K = (kws(HTTPConnectionPool) | kws(HTTPSConnectionPool) | kws(HTTPConnection) | kws(HTTPSConnection)) - {"host", "port"}
fields = {f[4:] for f in PoolKey._fields}
print("keywords not in PoolKey:", sorted(K - fields))
print("PoolKey fields not constructor keywords:", sorted(fields - K))
two = {
 "timeout": (Timeout(1), Timeout(2)), "maxsize": (1, 2), "block": (True, False), "headers": ({"a": "1"}, {"a": "2"}), "retries": (Retry(1), Retry(2)),
 "source_address": (("127.0.0.1", 0), ("127.0.0.2", 0)), "blocksize": (1024, 2048), "socket_options": ([(1, 2, 3)], [(1, 2, 4)]),
 "cert_reqs": ("CERT_REQUIRED", "CERT_NONE"), "assert_hostname": ("a", "b"), "assert_fingerprint": ("aa", "bb"), "server_hostname": ("a", "b"),
 "ssl_context": (ssl.create_default_context(), ssl.create_default_context()), "ca_certs": ("/a", "/b"), "ca_cert_dir": ("/a", "/b"), "ca_cert_data": ("a", "b"),
 "ssl_minimum_version": (ssl.TLSVersion.TLSv1_2, ssl.TLSVersion.TLSv1_3), "ssl_maximum_version": (ssl.TLSVersion.TLSv1_2, ssl.TLSVersion.TLSv1_3),
 "ssl_version": (ssl.PROTOCOL_TLSv1_2, ssl.PROTOCOL_TLS), "cert_file": ("/a", "/b"), "key_file": ("/a", "/b"), "key_password": ("a", "b"),
}
pm = PoolManager()
for k in sorted(K):
    if k not in two: print("  (no value pair prepared for)", k); continue
    a, b = two[k]
    try:
        p1 = pm.connection_from_host("h.test", 443, "https", pool_kwargs={k: a})
        p2 = pm.connection_from_host("h.test", 443, "https", pool_kwargs={k: b})
        p3 = pm.connection_from_host("H.TEST", None, "HTTPS", pool_kwargs={k: a})
        print(f"{k:22} distinct={p1 is not p2} normalised_same={p1 is p3}")
    except Exception as e:
        print(f"{k:22} rejected {type(e).__name__}: {str(e)[:60]}")
try:
    pm.connection_from_host("h.test", 443, "https", pool_kwargs={"bogus_kw": 1}); print("bogus accepted!")
except TypeError as e: print("bogus rejected:", e)
