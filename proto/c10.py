"""Recon: injection via method/url/header name/value; strict wire check."""
import sys, socket, itertools, collections
sys.path.insert(0, "/repo/src")
import urllib3, urllib3.util.connection as uc
from urllib3.connection import HTTPConnection
ALPHA = ["\r", "\n", "\r\n", "\x00", "\x7f", " ", "\t", ":", "é", "%41", "a", "\r\nX: y", "\r\n\r\nGET /2 HTTP/1.1\r\nHost: h\r\n\r\n", "#", "?"]
sent = []
class VS(socket.socket):
    def sendall(self, data, *a): sent.append(bytes(data)); return super().sendall(data, *a)
def cc(address, timeout=None, source_address=None, socket_options=None):
    a, b = socket.socketpair(); peers.append(b)
    b.sendall(b"HTTP/1.1 200 OK\r\nConnection: close\r\nContent-Length: 0\r\n\r\n")
    return VS(a.family, a.type, a.proto, fileno=a.detach())
peers = []
uc.create_connection = cc
def strict(wire, method, target_pred, headers):
    """wire must be exactly: request-line CRLF (header CRLF)* CRLF ; header lines must be the requested + automatic ones"""
    if not wire.endswith(b"\r\n\r\n"): return "no-terminator"
    head = wire[:-4]
    lines = head.split(b"\r\n")
    rl = lines[0]
    parts = rl.split(b" ")
    if len(parts) != 3 or parts[2] != b"HTTP/1.1": return "request-line-shape %r" % rl
    if parts[0] != method.encode("latin-1"): return "method"
    if not target_pred(parts[1]): return "target %r" % parts[1]
    if any(b in rl for b in (b"\r", b"\n", b"\x00")): return "ctl-in-request-line"
    got = lines[1:]
    want = [(k + ": " + v).encode("latin-1") for k, v in headers]
    auto_ok = (b"host:", b"accept-encoding:", b"user-agent:", b"content-length:", b"transfer-encoding:")
    rest = [l for l in got if l not in want]
    for l in want:
        if l not in got: return "missing %r" % l
    for l in rest:
        if not l.lower().startswith(auto_ok): return "extra-line %r" % l
    for l in got:
        if b"\r" in l or (b"\n" in l and not all(seg[:1] in (b" ", b"\t") for seg in l.split(b"\n")[1:])): return "bare-ctl %r" % l
    return None
stats = collections.Counter(); ex = {}
def run(kind, fn, method, target_pred, headers):
    sent.clear()
    try:
        fn(); raised = None
    except BaseException as e:
        raised = type(e).__name__
    wire = b"".join(sent)
    if raised and not wire: stats[kind + ":rejected-clean"] += 1; return
    if raised and wire:
        k = kind + ":PARTIAL-WRITE-THEN-" + raised; stats[k] += 1; ex.setdefault(k, (method, headers, wire[:120])); return
    v = strict(wire, method, target_pred, headers)
    if v: k = kind + ":BAD:" + v.split(" ")[0]; stats[k] += 1; ex.setdefault(k, (method, headers, wire[:160], v))
    else: stats[kind + ":sent-ok"] += 1
def hostile(base):
    for a in ALPHA:
        for pos in (0, len(base) // 2, len(base)):
            yield base[:pos] + a + base[pos:]
pool = urllib3.HTTPConnectionPool("h.test", 80, retries=False, timeout=2)
pm = urllib3.PoolManager(retries=False, timeout=2)
import re
okpath = lambda t: re.fullmatch(rb"[!-~]+", t) is not None and b"#" not in t
for m in hostile("GET"):
    run("method/conn", lambda: (c := HTTPConnection("h.test", 80), c.request(m, "/")), m, okpath, [])
    run("method/pool", lambda: pool.urlopen(m, "/"), m, okpath, [])
    run("method/pm", lambda: pm.urlopen(m, "http://h.test/"), m, okpath, [])
for u in hostile("/path?q=1"):
    run("url/pool", lambda: pool.urlopen("GET", u), "GET", okpath, [])
    run("url/pm", lambda: pm.request("GET", "http://h.test" + u), "GET", okpath, [])
    run("url/conn", lambda: (c := HTTPConnection("h.test", 80), c.request("GET", u)), "GET", okpath, [])
for n in hostile("X-Name"):
    run("hname/pool", lambda: pool.urlopen("GET", "/", headers={n: "v"}), "GET", okpath, [(n, "v")])
for v in hostile("value"):
    run("hvalue/pool", lambda: pool.urlopen("GET", "/", headers={"X-A": v}), "GET", okpath, [("X-A", v)])
    run("hvalue/pm", lambda: pm.request("GET", "http://h.test/", headers={"X-A": v}), "GET", okpath, [("X-A", v)])
for k, v in sorted(stats.items()): print(v, k, ex.get(k))
