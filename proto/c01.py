"""Recon: pool slot conservation under the full single-request fault matrix (+ follow-up request), real code."""
import sys, socket, errno, gc, itertools, collections, queue, warnings, ssl
sys.path.insert(0, "/repo/src")
import urllib3, urllib3.util.connection as uc
from urllib3.exceptions import HTTPError, EmptyPoolError
from urllib3.util.retry import Retry
import http.client

class Net:
    def __init__(self): self.peers = []; self.script = []; self.n = 0; self.events = []
net = Net()
class Boom(BaseException): pass

class VS(socket.socket):
    plan = None      # dict stage -> fault
    def sendall(self, data, *a):
        f = self.plan.pop("send", None)
        if f is not None: raise f
        return super().sendall(data, *a)
    def recv_into(self, *a, **k):
        f = self.plan.pop("recv", None)
        if f is not None: raise f
        return super().recv_into(*a, **k)

def mkfault(name):
    return {"refused": ConnectionRefusedError(errno.ECONNREFUSED, "refused"), "ctimeout": socket.timeout("timed out"),
            "cboom": Boom("connect"), "epipe": BrokenPipeError(errno.EPIPE, "pipe"), "sreset": ConnectionResetError(errno.ECONNRESET, "reset"),
            "soserr": OSError(errno.EHOSTUNREACH, "unreach"), "sboom": Boom("send"), "rtimeout": socket.timeout("timed out"),
            "rreset": ConnectionResetError(errno.ECONNRESET, "reset"), "rboom": Boom("recv"), "rssl": ssl.SSLError("bad record mac")}[name]

RESP = {
 "ok_ka": b"HTTP/1.1 200 OK\r\nContent-Length: 5\r\n\r\nhello", "ok_close": b"HTTP/1.1 200 OK\r\nConnection: close\r\nContent-Length: 5\r\n\r\nhello",
 "s503_ka": b"HTTP/1.1 503 X\r\nContent-Length: 3\r\n\r\nbad", "s503_close": b"HTTP/1.1 503 X\r\nConnection: close\r\nContent-Length: 3\r\n\r\nbad",
 "r302_ka": b"HTTP/1.1 302 F\r\nLocation: /next\r\nContent-Length: 0\r\n\r\n", "garbage": b"\x00\x01garbage\r\n\r\n", "short": b"HTTP/1.1 200 OK\r\nContent-Length: 50\r\n\r\nhel",
 "eof": b"", "chunk_trunc": b"HTTP/1.1 200 OK\r\nTransfer-Encoding: chunked\r\n\r\n5\r\nhel",
}
OUTCOMES = ["refused", "ctimeout", "cboom", "epipe", "sreset", "soserr", "sboom", "rtimeout", "rreset", "rboom", "rssl",
            "ok_ka", "ok_close", "s503_ka", "s503_close", "r302_ka", "garbage", "short", "eof", "chunk_trunc"]

def cc(address, timeout=None, source_address=None, socket_options=None):
    o = net.script.pop(0) if net.script else "ok_ka"
    net.events.append(o)
    if o in ("refused", "ctimeout", "cboom"): raise mkfault(o)
    a, b = socket.socketpair()
    v = VS(a.family, a.type, a.proto, fileno=a.detach()); v.plan = {}
    if o in ("epipe", "sreset", "soserr", "sboom"):
        v.plan["send"] = mkfault(o)
        b.sendall(RESP["ok_ka"])       # a reply may still be readable after EPIPE
    elif o in ("rtimeout", "rreset", "rboom", "rssl"): v.plan["recv"] = mkfault(o)
    else:
        b.sendall(RESP[o])
        if o in ("ok_close", "s503_close", "garbage", "short", "eof", "chunk_trunc"): b.shutdown(socket.SHUT_WR)
    net.peers.append(b)
    return v
uc.create_connection = cc

def peer_open(b):
    b.setblocking(False)
    try:
        while True:
            d = b.recv(65536)
            if d == b"": return False
    except BlockingIOError: return True
    except OSError: return False
    finally: b.setblocking(True)

def serve_more(k=3):
    # feed further keep-alive replies into still-open peers so follow-up requests on reused sockets get answers
    for b in net.peers:
        try: b.sendall(RESP["ok_ka"])
        except OSError: pass

stats = collections.Counter(); ex = {}
def note(k, info): stats[k] += 1; ex.setdefault(k, info)

DISP = ["read", "read2_release", "release", "drain", "close", "stream"]
def dispose(r, how):
    if how == "read": r.read()
    elif how == "read2_release": r.read(2); r.release_conn()
    elif how == "release": r.release_conn()
    elif how == "drain": r.drain_conn()
    elif how == "close": r.close()
    elif how == "stream":
        for _ in r.stream(2, decode_content=True): pass

def run(maxsize, block, retries, preload, release, script, disp):
    net.peers.clear(); net.events.clear(); net.script = list(script)
    pool = urllib3.HTTPConnectionPool("h.test", 80, maxsize=maxsize, block=block, timeout=0.03)
    info = dict(maxsize=maxsize, block=block, retries=repr(retries), preload=preload, release=release, script=script, disp=disp)
    resp = None; raised = None
    try:
        resp = pool.urlopen("GET", "/", retries=retries, preload_content=preload, release_conn=release, pool_timeout=0.01)
    except Boom as e: raised = e
    except HTTPError as e: raised = e
    except BaseException as e:
        raised = e; note("RAW:" + type(e).__name__, info)
    if isinstance(raised, Boom) is False and raised is not None and not isinstance(raised, HTTPError): pass
    disposed_by_close = False
    if resp is not None:
        try:
            dispose(resp, disp)
        except HTTPError: pass
        except BaseException as e: note("RAW-in-dispose:" + type(e).__name__, info)
        disposed_by_close = (disp == "close")
    resp = None; raised = None
    gc.collect()
    q = pool.pool
    items = list(q.queue)
    if len(items) != maxsize:
        note("SlotsRestored" + (":after-close()" if disposed_by_close else ""), dict(info, qsize=len(items), events=list(net.events)))
    real = [c for c in items if c is not None]
    if len(set(map(id, real))) != len(real): note("NoDuplicate", info)
    pooled_open = sum(1 for c in real if c.sock is not None)
    open_peers = sum(1 for b in net.peers if peer_open(b))
    if open_peers != pooled_open: note("NoOrphanSocket", dict(info, open_peers=open_peers, pooled_open=pooled_open, events=list(net.events)))
    # follow-up request must work (pool usable) when block=True
    if block and len(items) == maxsize:
        net.script = ["ok_ka"]
        serve_more()
        try:
            r2 = pool.urlopen("GET", "/", retries=False, pool_timeout=0.01)
            if r2.status != 200 or r2.data != b"hello": note("FollowUpWrongData", dict(info, got=(r2.status, r2.data)))
        except EmptyPoolError: note("FollowUpEmptyPool", info)
        except HTTPError as e: note("FollowUpError:" + type(e).__name__, dict(info, err=str(e)[:80]))
    stats["runs"] += 1
    for b in net.peers: b.close()

warnings.simplefilter("ignore")
retr = [False, 0, 1, Retry(2, status_forcelist=[503], redirect=1)]
import time; T0=time.time()
for maxsize in (1, 2):
  for block in (True, False):
    for retries in retr:
      for preload, release in ((True, None), (False, None), (False, True), (True, False)):
        for o1 in OUTCOMES:
          seconds = OUTCOMES if (maxsize == 1 and retries not in (False, 0)) else ["ok_ka"]
          for o2 in seconds:
            for disp in (DISP if not preload else ["read"]):
                run(maxsize, block, retries, preload, release, [o1, o2, "ok_ka"], disp)
print('elapsed', round(time.time()-T0,1))
for k, v in sorted(stats.items()):
    print(v, k); 
    if k != "runs": print("     ", ex[k])
