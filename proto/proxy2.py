import sys; sys.argv = ["x"]
exec(open("/tmp/exp/proxy.py").read().split("warnings.simplefilter(\"error\")")[0])
import warnings
warnings.simplefilter("ignore")
# 1) re-tunnel after the tunnel is closed by the peer between requests
CLOSE_AFTER = {"n": 1}
def party2(sock, proxy_tls):
    try:
        layer = SockLayer(sock)
        if proxy_tls: layer = TLSLayer(layer, sctx_for(proxy_cert), RECORD)
        head, eof = read_head(layer); RECORD["proxy"].append(head.split(b"\r\n")[0])
        if head.startswith(b"CONNECT"):
            layer.sendall(b"HTTP/1.1 200 OK\r\n\r\n")
            inner = TLSLayer(layer, sctx_for(origin_cert), RECORD)
            head, eof = read_head(inner); RECORD["origin"].append(head.split(b"\r\n")[0])
            inner.sendall(b"HTTP/1.1 200 OK\r\nContent-Length: 6\r\n\r\norigin")
            sock.close()        # peer closes the tunnel after one exchange (no Connection: close announced)
        else:
            RECORD["proxy"].append(b"| hdrs: " + b",".join(l.split(b":")[0] for l in head.split(b"\r\n")[1:] if l))
            layer.sendall(b"HTTP/1.1 200 OK\r\nContent-Length: 5\r\n\r\nproxy")
    except Exception as e: RECORD.setdefault("party_exc", []).append(repr(e))
def ccf(proxy_tls):
    def cc(address, timeout=None, source_address=None, socket_options=None):
        RECORD.setdefault("dial", []).append(address); a, b = socket.socketpair()
        threading.Thread(target=party2, args=(b, proxy_tls), daemon=True).start(); return a
    return cc
import time
for k in list(RECORD): RECORD[k] = []
uc.create_connection = ccf(False)
pm = urllib3.ProxyManager("http://proxy.test:3128", proxy_headers={"Proxy-Authorization": "Basic abc"}, ca_certs=capath, timeout=3, retries=2)
r1 = pm.request("GET", "https://origin.test/one"); time.sleep(0.05)
r2 = pm.request("GET", "https://origin.test/two")
print("re-tunnel:", r1.status, r2.status, "| proxy saw", RECORD["proxy"], "| origin saw", RECORD["origin"], "| dials", len(RECORD["dial"]), RECORD.get("party_exc"))
# 2) forwarding for https through an https proxy
for k in list(RECORD): RECORD[k] = []
uc.create_connection = ccf(True)
pm = urllib3.ProxyManager("https://proxy.test:3128", proxy_headers={"Proxy-Authorization": "Basic abc"}, ca_certs=capath, timeout=3, retries=False, use_forwarding_for_https=True)
r = pm.request("GET", "https://origin.test/fwd", headers={"Authorization": "tok"})
print("forwarding:", r.status, r.data, "| proxy saw", RECORD["proxy"], "| origin saw", RECORD["origin"], RECORD.get("party_exc"))
os.unlink(capath)
