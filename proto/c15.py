import sys, socket
sys.path.insert(0, "/repo/src")
import urllib3, urllib3.util.connection as uc
log = []
class VS(socket.socket):
    def sendall(self, d, *a): log.append(("wire", bytes(d))); return super().sendall(d, *a)
def cc(address, timeout=None, source_address=None, socket_options=None):
    log.append(("dial", address))
    a, b = socket.socketpair(); b.sendall(b"HTTP/1.1 200 OK\r\nConnection: close\r\nContent-Length: 0\r\n\r\n")
    return VS(a.family, a.type, a.proto, fileno=a.detach())
uc.create_connection = cc
urls = ["http://Example.COM", "http://example.com:80/", "HTTP://example.com./a/../b?x#frag", "http://user:pw@example.com:8080?q", "http://[::1]/", "http://[FE80::1%25eth0]:81/p",
        "http://[fe80::1%eth0]/", "http://127.0.0.1:080/", "http://bücher.example/ä?ö#ü", "http://example.com/a b", "http://example.com/%7e%zz", "http://example.com:0/", "http://example.com:/x"]
pm = urllib3.PoolManager(retries=False, timeout=2)
for u in urls:
    log.clear()
    try:
        r = pm.request("GET", u)
        dial = [e[1] for e in log if e[0] == "dial"]; wire = b"".join(e[1] for e in log if e[0] == "wire")
        lines = wire.split(b"\r\n"); host = [l for l in lines if l.lower().startswith(b"host:")]
        print(f"{u!r:45} dial={dial} rl={lines[0]!r} {host}")
    except Exception as e:
        print(f"{u!r:45} EXC {type(e).__name__}: {str(e)[:80]}")
p1 = pm.connection_from_url("http://Example.COM"); p2 = pm.connection_from_url("http://example.com:80/x"); print("same pool:", p1 is p2)
