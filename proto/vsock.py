"""Scratch feasibility: socket.socket subclass over socketpair with fault injection + TLS wrap + peer-side EOF observation."""
import socket, ssl, sys, threading, warnings
sys.path.insert(0, "/repo/src")
import urllib3, urllib3.util.connection as uc
import trustme

class VSocket(socket.socket):
    faults = None
    log = None
    def recv_into(self, *a, **k):
        f = self.faults.pop("recv", None) if self.faults else None
        if f: raise f
        n = super().recv_into(*a, **k)
        self.log.append(("recv", n)); return n
    def sendall(self, data, *a):
        f = self.faults.pop("send", None) if self.faults else None
        if f: raise f
        self.log.append(("send", len(data))); return super().sendall(data, *a)
    def settimeout(self, t):
        self.log.append(("settimeout", t)); return super().settimeout(t)
    def close(self):
        self.log.append(("close",)); return super().close()

def pair(log, faults=None):
    a, b = socket.socketpair()
    v = VSocket(a.family, a.type, a.proto, fileno=a.detach())
    v.log = log; v.faults = faults or {}
    return v, b

log = []
peers = []
def cc(address, timeout=None, source_address=None, socket_options=None):
    log.append(("connect", address, timeout))
    v, b = pair(log, FAULTS.pop(0) if FAULTS else None)
    peers.append(b)
    return v
uc.create_connection = cc
FAULTS = []

# plain HTTP
pool = urllib3.HTTPConnectionPool("a.test", 80, maxsize=1)
def answer(b, resp):
    req = b.recv(65536); b.sendall(resp)
t = threading.Thread(target=lambda: answer_wait()); 
import time
def answer_wait():
    while not peers: time.sleep(0.001)
    answer(peers[0], b"HTTP/1.1 200 OK\r\nContent-Length: 2\r\n\r\nok")
t.start()
r = pool.request("GET", "/")
print(r.status, r.data, log)
t.join()
# second request reuses: is_connection_dropped uses poll on real fd
peers[0].setblocking(False)
t = threading.Thread(target=lambda: (peers[0].setblocking(True), answer(peers[0], b"HTTP/1.1 200 OK\r\nContent-Length: 2\r\n\r\nOK")))
t.start()
r = pool.request("GET", "/"); print(r.data, len(peers)); t.join()
# fault: KeyboardInterrupt in recv
log.clear()
pool2 = urllib3.HTTPConnectionPool("b.test", 80, maxsize=1)
FAULTS.append({"recv": KeyboardInterrupt()})
try:
    pool2.request("GET", "/")
except BaseException as e:
    print("exc", type(e).__name__, "qsize", pool2.pool.qsize(), log)
# peer-side EOF observation
p = peers[-1]; p.setblocking(False)
try:
    data = p.recv(65536); data2 = p.recv(65536); print("peer sees", len(data), data2)
except BlockingIOError: print("peer: still open")

# TLS over VSocket
ca = trustme.CA(); cert = ca.issue_cert("tls.test")
sctx = ssl.SSLContext(ssl.PROTOCOL_TLS_SERVER); cert.configure_cert(sctx)
import tempfile, os
with tempfile.NamedTemporaryFile(suffix=".pem", delete=False) as f: ca.cert_pem.write_to_path(f.name); capath=f.name
def tls_server():
    n = len(peers)
    while len(peers) == n: time.sleep(0.001)
    s = sctx.wrap_socket(peers[-1], server_side=True)
    req = s.recv(65536); s.sendall(b"HTTP/1.1 200 OK\r\nContent-Length: 3\r\n\r\ntls"); 
before = len(peers)
t = threading.Thread(target=lambda: None)
def srv():
    while len(peers) == before: time.sleep(0.001)
    try:
        s = sctx.wrap_socket(peers[-1], server_side=True)
        req = s.recv(65536); s.sendall(b"HTTP/1.1 200 OK\r\nContent-Length: 3\r\n\r\ntls")
    except Exception as e: print("server exc", e)
t = threading.Thread(target=srv); t.start()
hp = urllib3.HTTPSConnectionPool("tls.test", 443, ca_certs=capath)
r = hp.request("GET", "/"); print("TLS:", r.status, r.data); t.join()
os.unlink(capath)
