import sys; sys.path.insert(0,"/repo/src")
import socket, io, gzip, zlib, itertools
import urllib3
from urllib3.connection import HTTPConnection
from urllib3.exceptions import HTTPError
import zstandard as zstd

def mkresp(wire, preload=False, method="GET", decode=True):
    c, s = socket.socketpair()
    conn = HTTPConnection("h", 80)
    conn.sock = c
    conn.request(method, "/", preload_content=preload, decode_content=decode)
    s.recv(65536)
    s.sendall(wire); s.close()
    return conn.getresponse()

def drive(r, api):
    out = b""
    if api == "read": out = r.read()
    elif api == "read3":
        while True:
            d = r.read(3)
            if not d: break
            out += d
    elif api == "read1":
        while True:
            d = r.read1(5)
            if not d: break
            out += d
    elif api == "stream": out = b"".join(r.stream(4))
    elif api == "chunked": out = b"".join(r.read_chunked(4))
    elif api == "iter": out = b"".join(r)
    elif api == "readinto":
        b = bytearray(4)
        while True:
            n = r.readinto(b)
            if not n: break
            out += b[:n]
    return out

payload = b"0123456789abcdefghij"
def cl(body): return b"HTTP/1.1 200 OK\r\nContent-Length: %d\r\n\r\n" % len(body) + body
def ch(body, sizes=(7,5,100)):
    out = b"HTTP/1.1 200 OK\r\nTransfer-Encoding: chunked\r\n\r\n"; i=0
    for sz in sizes:
        part = body[i:i+sz]; i+=sz
        if not part: break
        out += b"%x\r\n" % len(part) + part + b"\r\n"
    return out + b"0\r\n\r\n"
full_cl = cl(payload); full_ch = ch(payload)
hdr_cl = full_cl.index(b"\r\n\r\n")+4; hdr_ch = full_ch.index(b"\r\n\r\n")+4
apis = ["read","read3","read1","stream","iter","readinto"]
for name, full, hdr in (("CL", full_cl, hdr_cl), ("CH", full_ch, hdr_ch)):
    for api in apis + (["chunked"] if name=="CH" else []):
        silent = []
        for cut in range(hdr, len(full)):
            try:
                r = mkresp(full[:cut])
                out = drive(r, api)
                silent.append((cut-hdr, out))
            except HTTPError as e:
                pass
            except Exception as e:
                silent.append((cut-hdr, "RAW:"+type(e).__name__))
        print(name, api, "silent accepts:", silent[:6], len(silent))
    for cut in (hdr+3,):
        try:
            r = mkresp(full[:cut], preload=True); print(name, "preload silent", r.data)
        except HTTPError as e: print(name, "preload ->", type(e).__name__)
