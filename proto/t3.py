import sys; sys.path.insert(0,"/tmp/exp")
from net2 import *
import threading, urllib3, socket as _s, struct
from urllib3.util.retry import Retry

def serve(sock, actions, seen):
    f = sock.makefile("rb")
    for act in actions:
        req = b""
        clen = 0
        while True:
            line = f.readline()
            if not line: return
            req += line
            if line.lower().startswith(b"content-length:"): clen = int(line.split(b":")[1])
            if line == b"\r\n": break
        if clen: req += f.read(clen)
        seen.append(req.split(b"\r\n")[0])
        if act == "reset":
            sock.setsockopt(_s.SOL_SOCKET, _s.SO_LINGER, struct.pack("ii", 1, 0))
            f.close(); sock.close(); return
        if act == "eof":
            f.close(); sock.close(); return
        sock.sendall(act)

OK = b"HTTP/1.1 200 OK\r\nContent-Length: 2\r\n\r\nok"
def run(label, mk, method, url, conn_scripts, **kw):
    seen=[]
    scripts = list(conn_scripts)
    def cc(address, *a, **k):
        c, s = _s.socketpair()
        sc = scripts.pop(0)
        threading.Thread(target=serve, args=(s, sc, seen), daemon=True).start()
        return c
    uc.create_connection = cc
    pm = mk()
    try:
        r = pm.request(method, url, **kw)
        print(label, "->", r.status, r.data, seen)
    except Exception as e:
        print(label, "-> EXC", type(e).__name__, repr(e)[:200], seen)

run("direct POST eof", lambda: urllib3.PoolManager(), "POST", "http://a.test/", [["eof"], [OK]], body=b"x")
run("proxy  POST eof", lambda: urllib3.ProxyManager("http://proxy.test:3128"), "POST", "http://a.test/", [["eof"], [OK]], body=b"x")
run("direct POST eof retries=Retry(other=0)", lambda: urllib3.PoolManager(), "POST", "http://a.test/", [["eof"], [OK]], body=b"x", retries=Retry(total=3, other=0))
run("proxy  POST eof retries=Retry(other=0)", lambda: urllib3.ProxyManager("http://proxy.test:3128"), "POST", "http://a.test/", [["eof"], [OK]], body=b"x", retries=Retry(total=3, other=0))
run("proxy  POST eof retries=Retry(read=0)", lambda: urllib3.ProxyManager("http://proxy.test:3128"), "POST", "http://a.test/", [["eof"], [OK]], body=b"x", retries=Retry(total=3, read=0))
run("proxy  GET eof retries=Retry(read=0)", lambda: urllib3.ProxyManager("http://proxy.test:3128"), "GET", "http://a.test/", [["eof"], [OK]], retries=Retry(total=3, read=0))
run("direct GET eof retries=Retry(read=0)", lambda: urllib3.PoolManager(), "GET", "http://a.test/", [["eof"], [OK]], retries=Retry(total=3, read=0))
run("proxy  POST garbage", lambda: urllib3.ProxyManager("http://proxy.test:3128"), "POST", "http://a.test/", [[b"garbage\r\n\r\n"], [OK]], body=b"x")
run("direct POST garbage", lambda: urllib3.PoolManager(), "POST", "http://a.test/", [[b"garbage\r\n\r\n"], [OK]], body=b"x")
