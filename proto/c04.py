"""Recon: closed-loop retry behaviour vs ground-truth budget rules on a direct pool (no redirects)."""
import sys, socket, itertools, time, errno, copy
sys.path.insert(0, "/repo/src")
import urllib3, urllib3.util.connection as uc, urllib3.util.retry as ur
from urllib3.util.retry import Retry
from urllib3.exceptions import HTTPError, MaxRetryError
import urllib3.connectionpool as cp

sleeps = []
class FakeTime:
    def sleep(self, x): sleeps.append(x)
    def time(self): return time.time()
ur.time = FakeTime()

class VS(socket.socket):
    script = None; log = None
    def sendall(self, data, *a):
        self.log.append("send"); 
        o = self.script
        if o == "SendErr": raise OSError(errno.EHOSTUNREACH, "x")
        return super().sendall(data, *a)
    def recv_into(self, buf, *a):
        o = self.script
        if o == "ReadTimeout": raise socket.timeout("t")
        if o == "ReadReset": raise ConnectionResetError(errno.ECONNRESET, "r")
        return super().recv_into(buf, *a)

state = {}
def cc(address, timeout=None, source_address=None, socket_options=None):
    o = state["outcomes"][state["i"]] if state["i"] < len(state["outcomes"]) else "OK"
    state["connects"] += 1
    if o == "ConnRefused":
        state["i"] += 1; state["attempts"].append((o, None)); raise ConnectionRefusedError(errno.ECONNREFUSED, "refused")
    if o == "ConnTimeout":
        state["i"] += 1; state["attempts"].append((o, None)); raise socket.timeout("timed out")
    a, b = socket.socketpair()
    v = VS(a.family, a.type, a.proto, fileno=a.detach()); v.log = state["log"]; v.script = o
    state["peer"] = b
    # pre-load reply
    state["i"] += 1
    if o == "OK": b.sendall(b"HTTP/1.1 200 OK\r\nConnection: close\r\nContent-Length: 2\r\n\r\nok")
    elif o == "S500": b.sendall(b"HTTP/1.1 500 X\r\nConnection: close\r\nContent-Length: 0\r\n\r\n")
    elif o == "S429RA": b.sendall(b"HTTP/1.1 429 X\r\nConnection: close\r\nRetry-After: 7\r\nContent-Length: 0\r\n\r\n")
    elif o == "S404RA": b.sendall(b"HTTP/1.1 404 X\r\nConnection: close\r\nRetry-After: 7\r\nContent-Length: 0\r\n\r\n")
    elif o == "ReadEOF": b.close()
    elif o == "ReadGarbage": b.sendall(b"garbage\r\n\r\n"); 
    state["attempts"].append((o, v))
    return v
uc.create_connection = cc
cp.is_connection_dropped = lambda c: True  # force new connection per attempt for recon simplicity

CAT = {"ConnRefused": "connect", "ConnTimeout": "connect", "SendErr": "read", "ReadTimeout": "read", "ReadReset": "read",
       "ReadEOF": "read", "ReadGarbage": "read", "S500": "status", "S429RA": "status"}
OUT = ["ConnRefused", "ConnTimeout", "SendErr", "ReadTimeout", "ReadReset", "ReadEOF", "ReadGarbage", "S500", "S429RA", "S404RA", "OK"]

def run(retry, method, outcomes):
    state.update(outcomes=outcomes, i=0, attempts=[], log=[], connects=0)
    sleeps.clear()
    pool = urllib3.HTTPConnectionPool("a.test", 80, maxsize=1)
    before = copy.deepcopy(vars(retry)) if isinstance(retry, Retry) else None
    try:
        r = pool.urlopen(method, "/", retries=retry, body=(b"x" if method == "POST" else None))
        res = ("resp", r.status)
    except MaxRetryError as e:
        res = ("MaxRetry", type(e.reason).__name__)
    except HTTPError as e:
        res = ("raise", type(e).__name__)
    except BaseException as e:
        res = ("RAW", type(e).__name__, str(e)[:60])
    mutated = isinstance(retry, Retry) and before != vars(retry)
    return res, [a[0] for a in state["attempts"]], list(sleeps), mutated

def budget_ok(cfg, method, attempts, res):
    """ground-truth Rules; returns list of violated clause names"""
    bad = []
    total, connect, read, status, other, allowed_default, forcelist, raise_on_status, respect = cfg
    allowed = {"HEAD","GET","PUT","DELETE","OPTIONS","TRACE"} if allowed_default else None
    retried = {"connect":0, "read":0, "status":0, "other":0}
    for k, o in enumerate(attempts[:-1]):   # every attempt followed by another = a retry
        c = CAT.get(o)
        if c is None: bad.append(f"RetryAfterNonRetryable:{o}"); continue
        if c == "status":
            retryable = (o == "S500" and forcelist) or (o == "S429RA" and respect and total)
            if not retryable: bad.append(f"RetryOnNonRetryableStatus:{o}")
        retried[c] += 1
        if c in ("read", "status") and allowed is not None and method not in allowed:
            bad.append(f"NoResendAfterReach:{o}")
    n = len(attempts) - 1
    if total is False and n > 0: bad.append("FalseReraises")
    if isinstance(total, int) and total is not False and n > total: bad.append("Total")
    for name, b in (("connect", connect), ("read", read), ("status", status), ("other", other)):
        if b is False and retried[name] > 0: bad.append("False:" + name)
        if isinstance(b, int) and b is not False and retried[name] > b: bad.append("Budget:" + name)
    if res[0] == "RAW": bad.append("OnlyUrllib3Errors")
    return bad

count = 0; viol = {}
dom = [None, 0, 1, 2]
for total in [None, False, 0, 1, 2]:
  for connect in [None, False, 0, 1]:
    for read in [None, False, 0, 1]:
      for status in [None, 0, 1]:
        for allowed_default in [True, False]:
          for forcelist in [True, False]:
            for respect in [True, False]:
              for method in ["GET", "POST"]:
                if total is None and None in (connect, read, status): continue  # unbounded
                for outs in itertools.product(["ConnRefused", "ReadTimeout", "ReadEOF", "S500", "S429RA", "S404RA", "SendErr"], repeat=2):
                    outcomes = list(outs) + ["OK"]
                    kw = dict(total=total, connect=connect, read=read, status=status, respect_retry_after_header=respect,
                              status_forcelist=[500] if forcelist else None)
                    if not allowed_default: kw["allowed_methods"] = None
                    retry = Retry(**kw)
                    res, attempts, sl, mutated = run(retry, method, outcomes)
                    count += 1
                    bad = budget_ok((total, connect, read, status, None, allowed_default, forcelist, True, respect), method, attempts, res)
                    if mutated: bad.append("CallerRetryMutated")
                    for s in sl:
                        if not (0 <= s <= 120 or s == 7): bad.append("Sleep")
                    for b in bad:
                        viol.setdefault(b.split(":")[0], []).append((kw, method, outcomes, attempts, res))
print("runs", count)
for k, v in viol.items():
    print(k, len(v)); 
    for x in v[:3]: print("   ", x)
