import sys; sys.path.insert(0,"/tmp/exp")
from net2 import *
import threading, urllib3, socket as _s, io, gzip, zlib
from urllib3.util.retry import Retry
import zstandard as zstd

def serve(sock, actions, seen):
    f = sock.makefile("rb")
    for act in actions:
        req = b""; clen = None; chunked=False
        while True:
            line = f.readline()
            if not line: return
            req += line
            if line.lower().startswith(b"content-length:"): clen = int(line.split(b":")[1])
            if line.lower().startswith(b"transfer-encoding:"): chunked=True
            if line == b"\r\n": break
        body=b""
        if clen: body = f.read(clen)
        if chunked:
            while True:
                n = int(f.readline().strip(), 16)
                if n == 0: f.readline(); break
                body += f.read(n); f.readline()
        seen.append((req.split(b"\r\n")[0], "chunked" if chunked else clen, body))
        if act == "eof":
            f.close(); sock.close(); return
        sock.sendall(act)

OK = b"HTTP/1.1 200 OK\r\nContent-Length: 2\r\n\r\nok"
S503 = b"HTTP/1.1 503 X\r\nContent-Length: 0\r\n\r\n"
R307 = b"HTTP/1.1 307 X\r\nLocation: /again\r\nContent-Length: 0\r\n\r\n"
def run(label, method, url, conn_scripts, **kw):
    seen=[]
    scripts = list(conn_scripts)
    def cc(address, *a, **k):
        c, s = _s.socketpair()
        sc = scripts.pop(0)
        threading.Thread(target=serve, args=(s, sc, seen), daemon=True).start()
        return c
    uc.create_connection = cc
    pm = urllib3.PoolManager()
    try:
        r = pm.request(method, url, **kw)
        print(label, "->", r.status, r.data, seen)
    except Exception as e:
        print(label, "-> EXC", type(e).__name__, repr(e)[:200], seen)

def gen():
    yield b"abc"; yield b"def"
run("gen 503 retry", "PUT", "http://a.test/", [[S503, OK]], body=gen(), retries=Retry(3, status_forcelist=[503]))
run("gen 307", "PUT", "http://a.test/", [[R307, OK]], body=gen())
run("list 307", "PUT", "http://a.test/", [[R307, OK]], body=[b"abc", b"def"])
class NoTell:
    def __init__(self, b): self.b=io.BytesIO(b)
    def read(self, n=-1): return self.b.read(n)
run("notell file 307", "PUT", "http://a.test/", [[R307, OK]], body=NoTell(b"abcdef"))
run("BytesIO 307", "PUT", "http://a.test/", [[R307, OK]], body=io.BytesIO(b"abcdef"))
run("gen eof-then-ok", "PUT", "http://a.test/", [["eof"], [OK]], body=gen())

# C12
from urllib3.response import HTTPResponse
payload = bytes(range(256))*4
gz = gzip.compress(payload)
r = HTTPResponse(io.BytesIO(gz), headers={"content-encoding":"gzip"}, preload_content=False)
a = r.read(10); b = r.read()
print("gzip read(10)+read():", len(a), len(b), (a+b)==payload)
r = HTTPResponse(io.BytesIO(gz), headers={"content-encoding":"gzip"}, preload_content=False)
a = r.read(10); b = r.read1()
c = r.read()
print("gzip read(10)+read1()+read():", len(a), len(b), len(c), (a+b+c)==payload)
# zstd
f1 = zstd.compress(b"hello "*10); f2 = zstd.compress(b"world"*10)
class Seg(io.RawIOBase):
    def __init__(self, parts): self.parts=list(parts)
    def readable(self): return True
    def read(self, n=-1):
        return self.parts.pop(0) if self.parts else b""
r = HTTPResponse(Seg([f1, f2]), headers={"content-encoding":"zstd"}, preload_content=False)
try:
    out = b"".join(r.stream(100))
    print("zstd 2 frames at boundaries:", out == b"hello "*10 + b"world"*10)
except Exception as e:
    print("zstd EXC", type(e).__name__, e)
r = HTTPResponse(io.BytesIO(f1+f2), headers={"content-encoding":"zstd"}, preload_content=False)
try:
    out = r.read(len(b"hello "*10)) 
    out += r.read()
    print("zstd read:", out == b"hello "*10 + b"world"*10)
except Exception as e:
    print("zstd EXC", type(e).__name__, e)
