"""Quick exploratory in-memory network for urllib3 (scratch, not the final harness)."""
import io, socket, sys
sys.path.insert(0, "/repo/src")
import urllib3
from urllib3.connection import HTTPConnection
from urllib3.connectionpool import HTTPConnectionPool

class FakeSock:
    def __init__(self, script, log):
        self.script = script  # list of response bytes or exceptions per request
        self.log = log
        self.rbuf = b""
        self.sent = b""
        self.closed = False
        self.timeout = None
    def settimeout(self, t): self.timeout = t
    def gettimeout(self): return self.timeout
    def setsockopt(self, *a): pass
    def sendall(self, data):
        if self.closed: raise OSError("closed")
        self.sent += bytes(data)
        # complete request detection: naive
        self.log.append(("send", bytes(data)))
    def makefile(self, mode, *a, **k):
        return FakeFile(self)
    def close(self):
        self.closed = True
        self.log.append(("close",))
    def shutdown(self, how): pass
    def fileno(self): return -1

class FakeFile(io.RawIOBase):
    def __init__(self, sock): self.sock = sock
    def readable(self): return True
    def readinto(self, b):
        s = self.sock
        if not s.rbuf:
            if not s.script:
                return 0
            item = s.script.pop(0)
            if isinstance(item, BaseException):
                raise item
            s.rbuf = item
        n = min(len(b), len(s.rbuf))
        b[:n] = s.rbuf[:n]
        s.rbuf = s.rbuf[n:]
        return n

def make_pool(scripts, log, **kw):
    """scripts: list (per connection) of list of items"""
    class Conn(HTTPConnection):
        def _new_conn(self):
            log.append(("connect", self._dns_host, self.port))
            sc = scripts.pop(0) if scripts else []
            if isinstance(sc, BaseException):
                raise sc
            s = FakeSock(sc, log)
            return s
    class Pool(HTTPConnectionPool):
        ConnectionCls = Conn
    return Pool, Conn
