"""Scratch: INSTRUCTION-level preemption inside one source line (self.pool.put(...)) using sys.monitoring."""
import sys, threading, dis, socket, gc
sys.path.insert(0, "/repo/src")
import urllib3.connectionpool as cp
TOOL = sys.monitoring.DEBUGGER_ID; sys.monitoring.use_tool_id(TOOL, "instr")
co = cp.HTTPConnectionPool._put_conn.__code__
# find the line with 'self.pool.put('
import inspect
src, start = inspect.getsourcelines(cp.HTTPConnectionPool._put_conn)
line = start + next(i for i, l in enumerate(src) if "self.pool.put(" in l)
offs = [i.offset for i in dis.get_instructions(co) if i.positions and i.positions.lineno == line]
print("line", line, "instruction offsets", offs[:12], [i.opname for i in dis.get_instructions(co) if i.offset in offs][:12])
gate = {"armed": False}
evt_reached = threading.Event(); evt_go = threading.Event()
def on_instr(code, offset):
    if code is co and gate["armed"] and threading.current_thread().name == "T1":
        ins = next(i for i in dis.get_instructions(co) if i.offset == offset)
        if ins.positions.lineno == line and ins.opname.startswith("CALL"):
            gate["armed"] = False
            evt_reached.set(); evt_go.wait(5)      # park T1 after self.pool was loaded, right before the call
sys.monitoring.register_callback(TOOL, sys.monitoring.events.INSTRUCTION, on_instr)
sys.monitoring.set_local_events(TOOL, co, sys.monitoring.events.INSTRUCTION)

class Conn:
    closed = False
    def close(self): self.closed = True
pool = cp.HTTPConnectionPool("h.test", 80, maxsize=1)
pool.pool.get()           # slot leased
c = Conn()
gate["armed"] = True
t = threading.Thread(target=lambda: pool._put_conn(c), name="T1"); t.start()
evt_reached.wait(5)
oldq = pool.pool
pool.close()               # swaps pool to None and drains the (currently empty) queue
evt_go.set(); t.join()
print("after race: pool.pool =", pool.pool, "| conn closed:", c.closed, "| orphan queue size:", oldq.qsize())
del pool; gc.collect()
print("after dropping the pool object: conn closed:", c.closed)
