import sys, socket, threading
sys.path.insert(0, "/repo/src")
import urllib3, urllib3.util.connection as uc
seen=[]
def cc(address, timeout=None, source_address=None, socket_options=None):
    a,b = socket.socketpair()
    def srv():
        f=b.makefile("rb")
        while True:
            req=[]
            while True:
                line=f.readline()
                if not line: return
                if line==b"\r\n": break
                req.append(line.strip())
            seen.append((address, req))
            if b"a.test" in req[0]:
                b.sendall(b"HTTP/1.1 302 F\r\nLocation: http://proxy.test:3128/x\r\nContent-Length: 0\r\n\r\n")
            else:
                b.sendall(b"HTTP/1.1 200 OK\r\nContent-Length: 2\r\n\r\nok")
    threading.Thread(target=srv, daemon=True).start()
    return a
uc.create_connection = cc
pm = urllib3.ProxyManager("http://proxy.test:3128")
r = pm.request("GET", "http://a.test/", headers={"Authorization": "secret", "X-Other": "1"})
print(r.status)
for s in seen: print(s)
seen.clear()
# same-origin redirect via proxy for comparison: a.test -> a.test/y
