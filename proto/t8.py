import sys, random, itertools
sys.path.insert(0, "/repo/src")
from urllib3 import HTTPHeaderDict

class Ref:
    """reference multimap: list of [lower, display, [values]] in first-insertion order"""
    def __init__(self): self.e = []
    def find(self, k):
        for x in self.e:
            if x[0] == k.lower(): return x
    def setitem(self, k, v):
        x = self.find(k)
        if x: x[1] = k; x[2] = [v]
        else: self.e.append([k.lower(), k, [v]])
    def delitem(self, k):
        x = self.find(k)
        if not x: raise KeyError(k)
        self.e.remove(x)
    def add(self, k, v, combine=False):
        x = self.find(k)
        if not x: self.e.append([k.lower(), k, [v]])
        elif combine: x[2][-1] = x[2][-1] + ", " + v
        else: x[2].append(v)
    def lines(self): return [(x[1], v) for x in self.e for v in x[2]]
    def merged(self): return [(x[1], ", ".join(x[2])) for x in self.e]
    def copy(self):
        r = Ref(); r.e = [[a, b, list(c)] for a, b, c in self.e]; return r
    def obs(self, names):
        return (self.lines(), self.merged(), len(self.e),
                [(self.find(n) and ", ".join(self.find(n)[2])) for n in names],
                [bool(self.find(n)) for n in names],
                [list(self.find(n)[2]) if self.find(n) else [] for n in names])

def obs_real(d, names):
    return (list(d.iteritems()), list(d.itermerged()), len(d),
            [d.get(n) for n in names], [n in d for n in names], [d.getlist(n) for n in names])

NAMES = ["A", "a", "B", "b", "Set-Cookie", "set-cookie"]
VALS = ["1", "2", "x, y", ""]
random.seed(3)
mism = 0
for it in range(20000):
    objs = [(HTTPHeaderDict(), Ref())]
    trace = []
    for step in range(random.randint(1, 8)):
        i = random.randrange(len(objs)); d, r = objs[i]
        op = random.choice(["set", "del", "add", "addc", "extend_dict", "extend_pairs", "extend_hd", "update", "setdefault", "pop", "discard", "copy", "or", "ior", "ror"])
        k = random.choice(NAMES); v = random.choice(VALS)
        trace.append((i, op, k, v))
        try:
            if op == "set": d[k] = v; r.setitem(k, v)
            elif op == "del":
                try: del d[k]; ok = True
                except KeyError: ok = False
                try: r.delitem(k); rok = True
                except KeyError: rok = False
                assert ok == rok
            elif op == "add": d.add(k, v); r.add(k, v)
            elif op == "addc": d.add(k, v, combine=True); r.add(k, v, True)
            elif op == "extend_dict":
                k2 = random.choice(NAMES); src = {k: v, k2: "2"}
                d.extend(src)
                for a, b in src.items(): r.add(a, b)
            elif op == "extend_pairs":
                src = [(k, v), (random.choice(NAMES), "1")]
                d.extend(src)
                for a, b in src: r.add(a, b)
            elif op == "extend_hd":
                j = random.randrange(len(objs)); d2, r2 = objs[j]
                snap = r2.lines()
                d.extend(d2)
                for a, b in snap: r.add(a, b)
            elif op == "update":
                src = {k: v}
                d.update(src); r.setitem(k, v)
            elif op == "setdefault":
                got = d.setdefault(k, v)
                x = r.find(k)
                exp = ", ".join(x[2]) if x else v
                if not x: r.setitem(k, v)
                assert got == exp, (got, exp)
            elif op == "pop":
                x = r.find(k)
                if x:
                    exp = ", ".join(x[2]); got = d.pop(k); r.delitem(k); assert got == exp
                else:
                    assert d.pop(k, None) is None
            elif op == "discard":
                d.discard(k)
                if r.find(k): r.delitem(k)
            elif op == "copy":
                objs.append((d.copy(), r.copy()))
            elif op == "or":
                j = random.randrange(len(objs)); d2, r2 = objs[j]
                nr = r.copy()
                for a, b in r2.lines(): nr.add(a, b)
                objs.append((d | d2, nr))
            elif op == "ior":
                j = random.randrange(len(objs)); d2, r2 = objs[j]
                snap = r2.lines()
                d |= d2
                for a, b in snap: r.add(a, b)
                objs[i] = (d, r)
            elif op == "ror":
                src = {k: v}
                nr = Ref(); nr.add(k, v)
                for a, b in r.lines(): nr.add(a, b)
                objs.append((src | d, nr))
        except AssertionError as e:
            mism += 1; print("ASSERT", trace, e); break
        bad = False
        for (dd, rr) in objs:
            if obs_real(dd, NAMES) != rr.obs(NAMES):
                mism += 1; bad = True
                print("MISMATCH", trace); print(" real", obs_real(dd, NAMES)[:2]); print(" ref ", rr.obs(NAMES)[:2]); break
        if bad: break
    if mism >= 5: break
print("mismatches", mism)
