"""D3 / D4 (property C11): a request body is re-sent EMPTY instead of identically / UnrewindableBodyError.
run: PYTHONPATH=/verif /venv/bin/python /verif/findings/repro_D3_D4.py
expected with the defects present:
  D3 pool, generator body, 503 then ok : [b'abc', b'']     (second attempt silently empty)
  D4 PoolManager, BytesIO body, 307    : [b'abc', b'']     (bare pool: [b'abc', b'abc'])
proposed patches (do not change the first attempt):
  D3  util/request.py set_file_position: `elif hasattr(body, "read") or isinstance(body, typing.Iterator): pos = _FAILEDTELL`
      (a stream without tell() / a one-shot iterator is marked, so a retry/redirect raises UnrewindableBodyError)
  D4  poolmanager.py PoolManager.urlopen: record `body_pos = kw.get("body_pos")`, or `set_file_position(kw.get("body"), None)` when it
      is None, before conn.urlopen; set `kw["body_pos"] = body_pos` (None after a 303) before the recursive self.urlopen
"""
import io
import sys

sys.path.insert(1, "/verif")
import urllib3
from urllib3.util.retry import Retry
from vh import net


def run(call, first):
    replies = iter([net.Reply(first), net.Reply(net.http_response(200))])
    with net.Net(lambda p, r: next(replies)) as n:
        try:
            call()
        except urllib3.exceptions.UnrewindableBodyError:
            return "UnrewindableBodyError", [r.body for _, r in n.requests()]
        return [r.body for _, r in n.requests()]


r503, r307 = net.http_response(503), net.http_response(307, headers=[("Location", "/x")])
R = Retry(3, status_forcelist=[503], allowed_methods=None)
print("D3 pool, generator, 503 :", run(lambda: urllib3.HTTPConnectionPool("h", 80).urlopen("POST", "/", body=(c for c in [b"abc"]), retries=R), r503))
print("D4 PoolManager, file, 307:", run(lambda: urllib3.PoolManager().urlopen("POST", "http://h/", body=io.BytesIO(b"abc")), r307))
print("   bare pool,   file, 307:", run(lambda: urllib3.HTTPConnectionPool("h", 80).urlopen("POST", "/", body=io.BytesIO(b"abc")), r307))
