import threading, time
from urllib3.http2.probe import _HTTP2ProbeCache
c = _HTTP2ProbeCache()
res = {}
started = threading.Barrier(3)
def w(i):
    if i: time.sleep(0.05*i)
    v = c.acquire_and_get("h", 443)
    if v is None:
        time.sleep(0.3)   # probing
        c.set_and_release("h", 443, True)
        v = "probed"
    res[i] = v
ts = [threading.Thread(target=w, args=(i,), daemon=True) for i in range(3)]
[t.start() for t in ts]
[t.join(2) for t in ts]
print(res, [t.is_alive() for t in ts])
