"""C10-CONN-KEEPS-REJECTED-HEAD (property C10): a bare HTTPConnection flushes the head of a REFUSED request ahead of the next one.
run: PYTHONPATH=/verif /venv/bin/python /verif/findings/repro_C10_conn_keeps_rejected_head.py
with the defect the second call writes ONE request head made of both requests:
  b'DELETE /admin HTTP/1.1\\r\\nHost: h\\r\\n...X-Token: s3cret\\r\\nGET /public HTTP/1.1\\r\\nHost: h\\r\\n...'
(pools and PoolManager discard the connection of a refused request and are not affected)
patch (connection.py, HTTPConnection.close, next to `self.sock = None`):  del self._buffer[:]
"""
import sys

sys.path.insert(1, "/verif")
from urllib3.connection import HTTPConnection
from vh import net

with net.Net(lambda p, r: net.Reply(net.http_response(200))) as n:
    c = HTTPConnection("h", 80, timeout=2)
    try:
        c.request("DELETE", "/admin", headers={"X-Token": "s3cret", "X-Bad": "a\r\nb"})     # refused: ValueError, nothing written
    except ValueError as e:
        print("call 1 refused:", e)
    c.close()                                                                             # makes the object usable again
    c.request("GET", "/public")
    print("call 2 wrote:", [bytes(p.received) for p in n.peers.values()])
