"""Reproducers for the findings of the response life-cycle module (vh/resplife.py, spec/RespLife.tla).
Run:  cd /verif && PYTHONPATH=/repo/src:/verif /venv/bin/python findings/repro_RESPLIFE.py
A tiny HTTP/1.1 server on the loopback interface serves a keep-alive response whose body arrives in two halves."""
import socket
import threading
import time

import urllib3

HALF1, HALF2 = b"abcd", b"efgh"


def server(sock, mode):
    """mode: 'cl' Content-Length keep-alive, 'close' Connection: close, 'chunked'."""
    while True:
        try:
            c, _ = sock.accept()
        except OSError:
            return

        def serve(c=c):
            buf = b""
            while True:
                while b"\r\n\r\n" not in buf:
                    try:
                        d = c.recv(4096)
                    except OSError:
                        return
                    if not d:
                        return
                    buf += d
                head, buf = buf.split(b"\r\n\r\n", 1)
                path = head.split(b" ")[1]
                if path == b"/probe":
                    c.sendall(b"HTTP/1.1 200 OK\r\nContent-Length: 8\r\n\r\nprobe-ok")
                    continue
                if mode == "chunked":
                    c.sendall(b"HTTP/1.1 200 OK\r\nTransfer-Encoding: chunked\r\n\r\n4\r\nabcd\r\n")
                    time.sleep(0.2)
                    c.sendall(b"4\r\nefgh\r\n0\r\n\r\n")
                else:
                    extra = b"Connection: close\r\n" if mode == "close" else b""
                    c.sendall(b"HTTP/1.1 200 OK\r\nContent-Length: 8\r\n" + extra + b"\r\n" + HALF1)
                    time.sleep(0.2)
                    c.sendall(HALF2)
                    if mode == "close":
                        c.close()
                        return

        threading.Thread(target=serve, daemon=True).start()


def pool_for(mode):
    s = socket.socket()
    s.bind(("127.0.0.1", 0))
    s.listen(8)
    threading.Thread(target=server, args=(s, mode), daemon=True).start()
    return urllib3.HTTPConnectionPool("127.0.0.1", s.getsockname()[1], maxsize=1, retries=False)


def show(title, fn):
    try:
        print(f"{title}: {fn()!r}")
    except BaseException as ex:
        print(f"{title}: raised {type(ex).__module__}.{type(ex).__name__}: {ex}")


# F1: shutdown() after the body has been read to the end shuts down the read side of the connection that is idle in the pool
p = pool_for("cl")
r = p.urlopen("GET", "/", preload_content=False)
r.read()
conn = p.pool.queue[-1]
print("F1: connection idle in the pool:", conn is not None and conn.sock is not None)
r.shutdown()
show("F1: pooled socket after resp.shutdown(): recv returns", lambda: conn.sock.recv(1))      # b'' = read side shut down

# F2: shutdown() once the socket is closed raises a raw OSError
p = pool_for("close")
r = p.urlopen("GET", "/", preload_content=False)
r.read()
show("F2: read(); shutdown() on a Connection: close response", r.shutdown)

# F3: a suspended chunked stream() generator resumed after close() raises a raw AttributeError
p = pool_for("chunked")
r = p.urlopen("GET", "/", preload_content=False)
g = r.stream(4)
next(g)
r.close()
show("F3: next(stream) after close()", lambda: next(g))

# F7: the two statements of close() with another thread's read() in between (written out sequentially: thread B runs the
# first statement of close(), thread A runs read(), thread B runs the rest of close())
p = pool_for("cl")
r = p.urlopen("GET", "/", preload_content=False)
r._fp.close()                       # B: close(): self._fp.close()
show("F7: A: read()", r.read)       # A: finds the file closed, clean exit, release_conn() -> connection goes back OPEN
r.close()                           # B: close(): if self._connection: ...  (already None: closes nothing)
conn = p.pool.queue[-1]
print("F7: connection with the unread body is idle in the pool and open:", conn is not None and conn.sock is not None)
# (the rest of the old body is still on its way: the pool's "connection dropped?" test sees an idle, silent connection)
show("F7: next request on the pool gets", lambda: p.urlopen("GET", "/probe").data)

# F5: release_conn() puts before it clears: two threads inside release_conn (written out sequentially)
p = pool_for("cl")
r = p.urlopen("GET", "/", preload_content=False)
r.read(8)                           # end of body: _error_catcher calls release_conn() ...
print("F5: after read to the end: pool has", p.pool.qsize(), "of 1 slots, resp._connection is", r._connection)
print("    (release_conn runs `self._pool._put_conn(self._connection)` and only then `self._connection = None`; a close() /")
print("     release_conn() of another thread between the two statements passes the `if not self._connection` test and puts again;")
print("     ./check RESPLIFE replays that schedule on real threads)")
