"""C01-F1: a preloaded response that still owns its connection never gives the slot back when the caller
disposes of it with stream().  Run: PYTHONPATH=/verif /venv/bin/python findings/repro_C01_F1.py"""
import urllib3
from urllib3.exceptions import EmptyPoolError
from vh import net

with net.Net(lambda peer, req: net.Reply(net.http_response(200, b"hello"))):
    pool = urllib3.HTTPConnectionPool("h.test", 80, maxsize=1, block=True, timeout=1)
    r = pool.urlopen("GET", "/", preload_content=True, release_conn=False)
    for _ in r.stream(2):          # body already exhausted by the preload: no read, so no release
        pass
    del r
    print("queue size after stream():", pool.pool.qsize(), "(maxsize 1)")
    try:
        pool.urlopen("GET", "/", pool_timeout=0)
        print("second request served: C01-F1 is repaired")
    except EmptyPoolError as ex:
        print("second request:", type(ex).__name__, "- the only slot is lost for good")
