"""C11-WIDE-BUFFER-CHUNK-SIZE (property C11): chunked framing of a buffer object whose len() is not its size in bytes.
run: PYTHONPATH=/verif /venv/bin/python /verif/findings/repro_C11_wide_buffer_chunked.py
with the defect: the chunked body reads  b'2\\r\\naabb\\r\\n0\\r\\n\\r\\n'  (chunk-size 2 = ITEMS, 4 bytes follow: malformed);
Content-Length framing of the same object is correct (Content-Length: 4).
patch (connection.py, HTTPConnection.request):  mv = memoryview(chunk); self.send(b"%x\\r\\n%b\\r\\n" % (mv.nbytes, mv))
"""
import array
import sys

sys.path.insert(1, "/verif")
import urllib3
from vh import net

for chunked in (False, True):
    with net.Net(lambda p, r: net.Reply(net.http_response(200))) as n:
        try:
            urllib3.HTTPConnectionPool("h", 80, timeout=2).urlopen("POST", "/", body=array.array("H", [0x6161, 0x6262]), chunked=chunked, retries=False)
        except BaseException as e:          # the scripted peer may never see the end of the malformed message
            print("  (", type(e).__name__, ")")
        print("chunked" if chunked else "plain  ", [bytes(p.received).split(b"\r\n\r\n", 1)[1] for p in n.peers.values()])
