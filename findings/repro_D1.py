import urllib3, sys
sys.path.insert(0,'/verif')
from vh.net import Net, Reply, http_response
def responder(peer, req):
    if req.target.startswith("/r"):
        return Reply(http_response(302, b"", headers=[("Location","http://b.test/t")]))
    return Reply(http_response(200, b"target"))
for label, kw in [("False",dict(retries=False)),("0",dict(retries=0)),("R(redirect=0)",dict(retries=urllib3.Retry(redirect=0))),("1",dict(retries=1)),("none",{}),("R(total=0)",dict(retries=urllib3.Retry(total=0))),("R(redirect=0,ror=False)",dict(retries=urllib3.Retry(redirect=0,raise_on_redirect=False)))]:
    with Net(responder) as net:
        pm = urllib3.PoolManager(**kw)
        try:
            r = pm.request("GET","http://a.test/r"); out=(r.status,)
        except Exception as e: out=type(e).__name__
        print(label, out, [ (d[1]) for d in net.dials])
