"""Minimal reproducers for the C12 / C13 findings recorded in known_findings.d/C12.json and C13.json.
Run with /venv/bin/python (imports urllib3 from /repo/src).  Each line prints what the unchanged tree does."""
import gzip, io, socket, sys
import zstandard as z
from urllib3.response import HTTPResponse
from urllib3.connection import HTTPConnection
def wire(resp_bytes, preload=False):
    a, b = socket.socketpair(); c = HTTPConnection("h", 80); c.sock = a
    c.request("GET", "/", preload_content=preload); b.recv(65536); b.sendall(resp_bytes); b.close()
    return c.getresponse()
def show(name, f):
    try: print(name, "->", repr(f()))
    except Exception as e: print(name, "-> raises", type(e).__module__ + "." + type(e).__name__, str(e)[:90])
# D6
r = HTTPResponse(io.BytesIO(gzip.compress(b"0123456789")), headers={"content-encoding": "gzip"}, preload_content=False)
show("D6 read(2)", lambda: r.read(2, decode_content=True)); show("D6 read()   [want b'23456789']", lambda: r.read(decode_content=True)); show("D6 read(100) afterwards", lambda: r.read(100, decode_content=True))
# D7
f1, f2 = z.compress(b"a" * 10), z.compress(b"b" * 10)
r = HTTPResponse(io.BytesIO(f1 + f2), headers={"content-encoding": "zstd"}, preload_content=False)
show("D7 read(len(frame1)) [want 19 bytes of a/b]", lambda: r.read(len(f1), decode_content=True))
# D11
bad = b"HTTP/1.1 200 OK\r\nTransfer-Encoding: chunked\r\n\r\n-d\r\nhello\r\n0\r\n\r\n"
show("D11 read()", lambda: wire(bad).read())
show("D11 read(3)", lambda: wire(bad).read(3))
show("D11 stream", lambda: list(wire(bad).stream(16, decode_content=True)))
show("D11 read1(64) [raw wire bytes as data]", lambda: wire(bad).read1(64))
# F1
cut = b"HTTP/1.1 200 OK\r\nContent-Length: 10\r\n\r\nabc"
def f1_():
    r = wire(cut); return [r.read1(), r.read1()]
show("F1 read1(),read1() on 3 of 10 bytes [want IncompleteRead/ProtocolError]", f1_)
show("F1 read1(5)x2 (for comparison)", lambda: (lambda r: [r.read1(5), r.read1(5)])(wire(cut)))
# F2
zs = z.compress(b"x" * 100)
tr = b"HTTP/1.1 200 OK\r\nContent-Encoding: zstd\r\nConnection: close\r\n\r\n" + zs[:-3]
def loop(r, n):
    out = []
    while True:
        d = r.read(n, decode_content=True)
        if not d: return b"".join(out)
        out.append(d)
show("F2 read(7) loop on truncated zstd, close-delimited [want DecodeError]", lambda: len(loop(wire(tr), 7)))
show("F2 stream(16)", lambda: len(b"".join(wire(tr).stream(16, decode_content=True))))
show("F2 read() (for comparison)", lambda: wire(tr).read(decode_content=True))
# F3
st = z.compress(gzip.compress(b"y" * 100))
tr3 = b"HTTP/1.1 200 OK\r\nContent-Encoding: gzip, zstd\r\nConnection: close\r\n\r\n" + st[:-3]
show("F3 read() on truncated 'gzip, zstd' [want DecodeError]", lambda: wire(tr3).read(decode_content=True))
# F4: undecodable body with complete framing -> DecodeError, yet the connection goes back to the pool and is reused
import urllib3
sys.path.insert(0, "/verif")
from vh import net as vnet
bad = bytearray(gzip.compress(b"z" * 50)); bad[12] ^= 0x55
first = [True]
def responder(peer, req):
    if first[0]:
        first[0] = False
        return vnet.Reply(b"HTTP/1.1 200 OK\r\nContent-Encoding: gzip\r\nContent-Length: %d\r\n\r\n" % len(bad) + bytes(bad))
    return vnet.Reply(vnet.http_response(200, b"second"))
with vnet.Net(responder) as net:
    pool = urllib3.HTTPConnectionPool("h.test", 80, maxsize=1, block=True, timeout=3.0, retries=False)
    r = pool.urlopen("GET", "/a", preload_content=False, retries=False)
    show("F4 read() of a corrupted gzip body", lambda: r.read(decode_content=True))
    del r
    pool.urlopen("GET", "/b", retries=False)
    print("F4 connection ids that served the two requests [want two different]:", [cid for cid, _ in net.requests()])
