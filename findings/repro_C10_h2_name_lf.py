"""C10-H2-NAME-TRAILING-LF: HTTP2Connection.putheader accepts a header name ending in LF.
run: /venv/bin/python /verif/findings/repro_C10_h2_name_lf.py   with the defect: prints [(b"x-a\\n", b"v")] True; repaired in /repo by 293c68f: raises ValueError
patch: http2/connection.py  RE_IS_LEGAL_HEADER_NAME = re.compile(rb"^[!#$%&'*+\\-.^_`|~0-9a-z]+\\Z")   (or .fullmatch in _is_legal_header_name)
"""
from urllib3.http2.connection import HTTP2Connection, _is_legal_header_name

c = HTTP2Connection("h", 443)
c.putheader("x-a\n", "v")          # must raise ValueError("Illegal header name ..."): '$' matches before the trailing newline
print(c._headers, _is_legal_header_name(b"x-a\n"))
