"""C01-F2: a request that fails BEFORE any checkout (invalid per-request timeout -> ValueError from _get_timeout,
which sits inside urlopen's try block) still runs `_put_conn(None)` in the finally clause.
Run: PYTHONPATH=/verif /venv/bin/python findings/repro_C01_F2.py"""
import urllib3
from urllib3.exceptions import FullPoolError
from vh import net

with net.Net(lambda peer, req: net.Reply(net.http_response(200, b"hello"))):
    # (1) idle blocking pool: the caller's ValueError is replaced by FullPoolError
    pool = urllib3.HTTPConnectionPool("h.test", 80, maxsize=1, block=True, timeout=1)
    try:
        pool.urlopen("GET", "/", timeout="bad")
    except ValueError as ex:
        print("(1) ValueError reaches the caller: repaired")
    except FullPoolError as ex:
        print("(1) idle pool:", type(ex).__name__, "replaces the ValueError")
    # (2) while a response holds the only slot: a phantom placeholder appears
    pool = urllib3.HTTPConnectionPool("h.test", 80, maxsize=1, block=True, timeout=1)
    r1 = pool.urlopen("GET", "/", preload_content=False)
    try:
        pool.urlopen("GET", "/", timeout="bad")
    except ValueError:
        pass
    print("(2) queue size while the only connection is leased:", pool.pool.qsize(), "(must be 0)")
    if pool.pool.qsize():
        r2 = pool.urlopen("GET", "/", preload_content=False, pool_timeout=0)
        print("    a second connection was opened on a block=True maxsize=1 pool:", pool.num_connections, "connections")
        try:
            r1.read()
        except FullPoolError as ex:
            print("    the first holder's read() ->", type(ex).__name__)
