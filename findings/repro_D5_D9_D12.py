import urllib3, sys, queue
sys.path.insert(0,'/verif')
from vh.net import Net, Reply, http_response
def responder(peer, req):
    if req.target=="/303": return Reply(http_response(303,b"",headers=[("Location","/t")]))
    return Reply(http_response(200, b"x"*10))
# D9
with Net(responder) as net:
    pool = urllib3.HTTPConnectionPool("a.test", 80, maxsize=1, block=True, timeout=2, retries=False)
    r = pool.request("GET","/x", preload_content=False); r.close()
    try:
        r = pool.request("GET","/y", pool_timeout=0.01); print("D9 ok", r.status, "open:", net.open_conns())
    except Exception as e: print("D9", type(e).__name__)
# D5
import io
with Net(responder) as net:
    pool = urllib3.HTTPConnectionPool("a.test", 80, maxsize=1, timeout=2)
    try:
        r = pool.urlopen("POST","/303", body=io.BytesIO(b"abc")); print("D5 ok", r.status, [(q.method,q.target,q.body) for _,q in net.requests()])
    except Exception as e: print("D5", type(e).__name__, e)
# D12: close() lands between the `pool is not None` test and the Full branch
class Q(queue.LifoQueue):
    owner=None
    def put(self, item, block=True, timeout=None):
        if self.owner is not None and getattr(self.owner,'_armed',False):
            self.owner._armed=False
            self.owner.close()
            raise queue.Full
        return super().put(item, block, timeout)
with Net(responder) as net:
    class P(urllib3.HTTPConnectionPool): QueueCls=Q
    pool = P("a.test", 80, maxsize=1, timeout=2, retries=False)
    pool.pool.owner = pool
    pool._armed=True
    try:
        r = pool.request("GET","/x"); print("D12 ok", r.status)
    except Exception as e: print("D12", type(e).__name__, e)
