#!/bin/sh
# usage: tools/keep_seed.sh <src dir (patch.diff, demo.py, README.txt)> <seed id e.g. C16-a1> <property> 
# confirms the seeded change in a scratch worktree and, if confirmed, stores it under /verif/seeded/<seed id>/
set -u
src="$(readlink -f "$1")"; sid="$2"; pid="$3"
log="$(mktemp /tmp/keepseed.XXXXXX)"
/verif/tools/confirm_seed.sh "$src" > "$log" 2>&1
if grep -q "^CONFIRMED" "$log"; then
  dst="/verif/seeded/$sid"; mkdir -p "$dst"
  cp "$src/patch.diff" "$src/demo.py" "$dst/"; [ -f "$src/README.txt" ] && cp "$src/README.txt" "$dst/"
  /venv/bin/python - "$dst" "$pid" "$log" <<'PY'
import json, sys, os
dst, pid, log = sys.argv[1:4]
readme = open(os.path.join(dst, "README.txt")).read() if os.path.exists(os.path.join(dst, "README.txt")) else ""
meta = {"property": pid, "origin": "independent sub-agent given only the property record and a scratch worktree",
        "needs_to_manifest": readme,
        "confirmed_by": "tools/confirm_seed.sh in a fresh scratch worktree of /repo HEAD: demo.py exit 0 on pristine, non-zero with patch.diff applied; pinned suite (tools/baseline.py) missing=0 with the patch",
        "confirmation_log": open(log).read().splitlines()[-8:],
        "detected_by": []}
json.dump(meta, open(os.path.join(dst, "meta.json"), "w"), indent=1)
PY
  echo "KEPT $sid"
else
  echo "NOT KEPT $sid"; tail -8 "$log"
fi
rm -f "$log"
