#!/bin/sh
# usage: tools/mkworktree.sh <dir>   — scratch git worktree of /repo HEAD outside /repo and /verif,
# with the untracked generated _version.py copied in so that `PYTHONPATH=<dir>/src` imports work.
set -e
d="$1"; [ -n "$d" ] || { echo "usage: $0 <dir>"; exit 2; }
git -C /repo worktree add -q --detach "$d" HEAD
cp /repo/src/urllib3/_version.py "$d/src/urllib3/_version.py"
echo "$d"
