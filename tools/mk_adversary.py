#!/usr/bin/env python3
"""Prepare an adversary job: scratch worktree + prompt file containing ONLY the property record.
usage: tools/mk_adversary.py C16 [tag]   -> prints the prompt path"""
import json, os, subprocess, sys
pid = sys.argv[1]; tag = sys.argv[2] if len(sys.argv) > 2 else "a"
root = f"/tmp/mut/{pid}{tag}"
os.makedirs("/tmp/mut", exist_ok=True)
if not os.path.exists("/tmp/mut/baseline.py"):
    subprocess.check_call(["cp", "/verif/tools/baseline.py", "/tmp/mut/baseline.py"])
wt = root + "/wt"; out = root + "/out"
os.makedirs(out, exist_ok=True)
if not os.path.exists(wt):
    subprocess.check_call(["/verif/tools/mkworktree.sh", wt])
rec = [json.loads(l) for l in open("/verif/properties.jsonl") if json.loads(l)["id"] == pid][0]
prompt = f"""You are a mutation adversary for the Python HTTP client library urllib3. You have your own scratch git worktree of the repository at {wt} (source under {wt}/src/urllib3, tests under {wt}/test). Work ONLY inside {root}; never read or write /repo or /verif (they are off limits), never commit.

Here is a semantic property that users of urllib3 rely on (JSON record: statement, quantifier, why unit tests cannot settle it, code anchors):

{json.dumps(rec, indent=1)}

YOUR TASK: produce TWO independent, realistic source changes ("mutants") to urllib3 (files under {wt}/src/urllib3 only), each of which BREAKS this property while the code still imports/compiles and the repository's existing pinned test suite still passes. Each change should look like something a developer could plausibly write (a refactor gone subtly wrong, an off-by-one, a dropped case, a reordered statement, a too-eager optimisation, two cooperating sites that each look fine alone) — NOT sabotage that ordinary use would expose at once. Prefer changes that need something specific to manifest: a particular interleaving, a fault at a particular point, a multi-step sequence of operations, an unusual input or configuration. The two mutants must use different mechanisms / different code sites.

For each mutant k in {{1,2}} deliver, under {out}/m<k>/ :
  patch.diff   — `git -C {wt} diff` of the change (must apply cleanly to a pristine checkout with `git apply`)
  demo.py      — a small self-contained demonstration program (stdlib + urllib3 only, no network beyond loopback sockets/socketpairs you create yourself; must finish in < 60 s) that exits 0 on the pristine tree and exits non-zero (printing what went wrong) with the patch applied. Run it as: PYTHONPATH={wt}/src /venv/bin/python demo.py
  README.txt   — 5-15 lines: what the change is, why it breaks the property (which clause), what exactly it needs in order to manifest, and why the existing tests do not notice.

HOW TO CHECK THAT THE EXISTING TESTS STILL PASS: run `/venv/bin/python /tmp/mut/baseline.py {wt}` (takes ~2-3 minutes; it runs the pinned pytest command inside the worktree with PYTHONPATH={wt}/src and compares against the list of 682 stable tests; it must print `missing=0` and exit 0). Run it for each mutant separately (apply one patch at a time on a clean worktree: `git -C {wt} checkout -- .` between mutants). Note {wt}/src/urllib3/_version.py is an untracked generated file — leave it alone.

REQUIREMENTS CHECKLIST (verify each yourself before finishing, for each mutant): (1) pristine tree: demo.py exits 0; (2) patched tree: demo.py exits non-zero for the stated reason; (3) patched tree: baseline.py prints missing=0; (4) patch.diff applies cleanly to the pristine tree; (5) at the end the worktree is back to pristine (`git -C {wt} status --short` shows nothing tracked as modified).

FINAL REPORT (under 30 lines): for each mutant one paragraph — file/function changed, the one-line idea, what it needs to manifest, demo result on pristine vs patched, baseline result. If you could not satisfy a requirement for a mutant, say so plainly instead of delivering it.
"""
pp = root + "/prompt.txt"
open(pp, "w").write(prompt)
print(pp)
