#!/usr/bin/env python3
"""Run the pinned suite (guard off) and compare with /root/.vp/BASELINE.json stable_pass."""
import json, os, subprocess, sys, tempfile, xml.etree.ElementTree as ET
base = json.load(open("/root/.vp/BASELINE.json"))
fd, path = tempfile.mkstemp(suffix=".xml"); os.close(fd)
env = dict(os.environ); env.pop("URLLIB3_VERIF", None)
cmd = base["cmd"].replace("<file>", path)
if len(sys.argv) > 1:   # a scratch worktree / copy of the repository: import urllib3 from there
    cmd = cmd.replace("cd /repo", "cd " + sys.argv[1])
    env["PYTHONPATH"] = os.path.join(sys.argv[1], "src")
import signal
pr = subprocess.Popen(cmd, shell=True, env=env, stdout=subprocess.PIPE, stderr=subprocess.STDOUT, text=True, start_new_session=True)
try:
    pr.communicate(timeout=int(os.environ.get("BASELINE_TIMEOUT") or 1800))
except subprocess.TimeoutExpired:   # pytest sometimes never exits (leaked server threads); the junit file is complete by then
    os.killpg(pr.pid, signal.SIGKILL)
    print("baseline: pytest did not exit in time; killed, using the junit file written so far")
passed = set()
try:
    for tc in ET.parse(path).getroot().iter("testcase"):
        if not list(tc):
            passed.add(f"{tc.get('classname')}::{tc.get('name')}")
        elif all(c.tag in ("system-out", "system-err", "properties") for c in tc):
            passed.add(f"{tc.get('classname')}::{tc.get('name')}")
finally:
    os.unlink(path)
want = set(base["stable_pass"]) - {"::"}
missing = sorted(want - passed)
print(f"passed={len(passed)} stable_pass={len(want)} missing={len(missing)}")
for m in missing[:40]:
    print("  MISSING", m)
sys.exit(1 if missing else 0)
