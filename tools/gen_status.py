#!/usr/bin/env python3
"""Regenerate the machine-written tables of DESIGN.md (between the AUTO markers) from
tools/checks.json, evidence/*.json, seeded/*/meta.json, seeded/RESULTS.json and known_findings*.json."""
import json, os, re, glob
ROOT = os.path.dirname(os.path.dirname(os.path.abspath(__file__)))
J = lambda p: json.load(open(os.path.join(ROOT, p)))
checks = J("tools/checks.json")
props = {json.loads(l)["id"]: json.loads(l) for l in open(os.path.join(ROOT, "properties.jsonl"))}

def status_table():
    rows = ["| id | specification modules | quick: states / traces validated / real executions / wall | known findings printed | seeded changes caught (quick) |",
            "|---|---|---|---|---|"]
    res = J("seeded/RESULTS.json") if os.path.exists(os.path.join(ROOT, "seeded/RESULTS.json")) else {}
    for pid in sorted(props):
        if pid not in checks:
            rows.append(f"| {pid} | — | not claimed | | |"); continue
        ev = None
        p = os.path.join(ROOT, "evidence", pid + ".json")
        if os.path.exists(p):
            ev = json.load(open(p))
        cov = ev["coverage"] if ev else {}
        seeds = sorted(s for s in os.listdir(os.path.join(ROOT, "seeded")) if s.startswith(pid + "-"))
        caught = []
        for s in seeds:
            r = res.get(s, {}).get("quick", {})
            hit = [q for q, v in r.items() if isinstance(v, dict) and v.get("exit") == 1]
            caught.append(f"{s}:{'+'.join(hit) if hit else 'MISSED' if r else 'not run'}")
        rows.append(f"| {pid} | {checks[pid]['engine']} | {cov.get('states','?')} / {cov.get('traces_validated_against_impl','?')} / {cov.get('evaluations','?')} / "
                    f"{ev['wall_s'] if ev else '?'} s ({ev['tier'] if ev else '?'}) | {', '.join(cov.get('known_findings_seen', [])) or '—'} | {'; '.join(caught) or '—'} |")
    return "\n".join(rows)

def seeds_table():
    rows = ["| seed | property | what the change is / what it needs to manifest (first lines of its README) | detected by |", "|---|---|---|---|"]
    for d in sorted(glob.glob(os.path.join(ROOT, "seeded", "*", "meta.json"))):
        m = json.load(open(d)); sid = os.path.basename(os.path.dirname(d))
        txt = " ".join(m.get("needs_to_manifest", "").split())[:260]
        rows.append(f"| {sid} | {m['property']} | {txt} | {'; '.join(m.get('detected_by', [])) or 'not yet run / missed'} |")
    return "\n".join(rows)

def findings_table():
    kf = J("known_findings.json")
    found = list(kf.get("findings", []))
    for f in sorted(glob.glob(os.path.join(ROOT, "known_findings.d", "*.json"))):
        found += json.load(open(f)).get("findings", [])
    rows = ["**Recorded (not repaired) — printed as KNOWN-FINDING, exit 0; any other violation of the same clause still exits 1:**", ""]
    for f in found:
        rows.append(f"* `{f['id']}` ({f['property']}): {f['what']}")
    rows += ["", "**Repaired by a `fix:` commit in /repo (these suppress nothing):**", ""]
    for f in kf.get("fixed", []):
        rows.append("* " + f)
    return "\n".join(rows)

def main():
    p = os.path.join(ROOT, "DESIGN.md"); s = open(p).read()
    for tag, fn in (("STATUS", status_table), ("SEEDS", seeds_table), ("FINDINGS", findings_table)):
        a, b = f"<!-- AUTO:{tag} -->", f"<!-- /AUTO:{tag} -->"
        if a in s and b in s:
            s = s[:s.index(a) + len(a)] + "\n" + fn() + "\n" + s[s.index(b):]
    ab = J("tools/asbuilt.json")
    for pid in sorted(props):
        a, b = f"<!-- AUTO:ASBUILT:{pid} -->", f"<!-- /AUTO:ASBUILT:{pid} -->"
        if a in s and b in s:
            s = s[:s.index(a) + len(a)] + "\n  " + ab.get(pid, "(check not finished yet)") + "\n" + s[s.index(b):]
    open(p, "w").write(s)
    print("DESIGN.md tables regenerated")
if __name__ == "__main__":
    main()
