#!/usr/bin/env python3
"""Run every seeded change under /verif/seeded against the check of the property it breaks
(scratch copy of /repo/src with the patch applied; /repo is never touched; evidence not overwritten).
usage: tools/seed_matrix.py [--tier quick|thorough] [--only C16-a1,...] [--jobs N]
Writes seeded/RESULTS.json and the `detected_by` list of each meta.json."""
import argparse, json, os, re, shutil, subprocess, sys, tempfile, time
from concurrent.futures import ThreadPoolExecutor
ROOT = os.path.dirname(os.path.dirname(os.path.abspath(__file__)))
SEEDED = os.path.join(ROOT, "seeded")

def one(sid, tier):
    d = os.path.join(SEEDED, sid)
    meta = json.load(open(os.path.join(d, "meta.json")))
    pids = meta["property"] if isinstance(meta["property"], list) else [meta["property"]]
    pids = pids + [p for p in meta.get("also_run", []) if p not in pids]
    scr = tempfile.mkdtemp(prefix="seedrun.")
    res = {}
    try:
        shutil.copytree("/repo/src", os.path.join(scr, "src"))
        p = subprocess.run(["patch", "-s", "-p1", "-i", os.path.join(d, "patch.diff")], cwd=scr, capture_output=True, text=True)
        if p.returncode != 0:
            return sid, {"error": "patch failed: " + p.stdout + p.stderr}
        for pid in pids:
            env = dict(os.environ, VERIF_REPO_SRC=os.path.join(scr, "src"))
            t0 = time.time()
            q = subprocess.run(["./check", pid, "--tier", tier], cwd=ROOT, env=env, capture_output=True, text=True)
            vio = [l for l in q.stdout.splitlines() if l.startswith("VIOLATION")]
            clauses = sorted({m.group(1) for l in vio for m in [re.search(r"clause=(\S+)", l)] if m})
            res[pid] = {"exit": q.returncode, "violation_lines": len(vio), "clauses": clauses[:6], "wall_s": round(time.time() - t0, 1),
                        "tail": (q.stdout + q.stderr).splitlines()[-2:] if q.returncode not in (0, 1) else []}
    finally:
        shutil.rmtree(scr, ignore_errors=True)
    return sid, res

def main():
    ap = argparse.ArgumentParser(); ap.add_argument("--tier", default="quick"); ap.add_argument("--only"); ap.add_argument("--jobs", type=int, default=2)
    a = ap.parse_args()
    sids = sorted(s for s in os.listdir(SEEDED) if os.path.exists(os.path.join(SEEDED, s, "meta.json")))
    if a.only:
        sids = [s for s in sids if s in a.only.split(",")]
    path = os.path.join(SEEDED, "RESULTS.json")
    allres = json.load(open(path)) if os.path.exists(path) else {}
    with ThreadPoolExecutor(a.jobs) as ex:
        for sid, res in ex.map(lambda s: one(s, a.tier), sids):
            allres.setdefault(sid, {})[a.tier] = res
            mp = os.path.join(SEEDED, sid, "meta.json"); meta = json.load(open(mp))
            det = [f"{pid} {a.tier}: exit {r['exit']} ({', '.join(r['clauses']) or 'no clause'})" for pid, r in res.items() if isinstance(r, dict) and r.get("exit") == 1]
            meta["detected_by"] = sorted(set([x for x in meta.get("detected_by", []) if f" {a.tier}:" not in x] + det))
            json.dump(meta, open(mp, "w"), indent=1)
            print(sid, json.dumps(res)); sys.stdout.flush()
            json.dump(allres, open(path, "w"), indent=1, sort_keys=True)
if __name__ == "__main__":
    main()
