#!/usr/bin/env python3-vt
"""Generate /verif/MANIFEST.json from the table below and validate it against the schema."""
import json, os, sys
ROOT = os.path.dirname(os.path.dirname(os.path.abspath(__file__)))
TITLES = {json.loads(l)["id"]: json.loads(l)["title"] for l in open(os.path.join(ROOT, "properties.jsonl"))}

BASE = ("cd /repo && /venv/bin/python -m pytest -ra -q -p no:cacheprovider --timeout=900 "
        "--continue-on-collection-errors")

# property -> (engine spec modules, technique, level text, level note, design ref)
CHECKS = {
 "C16": ("HeaderDict.tla, MC_HeaderDict.tla, HeaderDict_Trace.tla",
         "TLA+ reference multimap; TLC-emitted transition graph replayed on real HTTPHeaderDict objects; TLC batch trace validation of random walks",
         "TLC checks the reference multimap's own consistency properties exhaustively within the depth bound, emits every "
         "transition of the reachable graph (all operation sequences up to the bound over the property's alphabet, collapsed by state), "
         "each transition is replayed on real objects and compared, and recorded random 30-step walks over up to three live "
         "objects are validated step by step by TLC against the same Apply operator, including every observation the statement lists.",
         "Names/values limited to the property's alphabet; sources limited to four constant dict/list/kwargs sources plus live HTTPHeaderDicts; TLC and CPython trusted.",
         "§4 C16"),
 "C18": ("PoolKey.tla, MC_PoolKey.tla, PoolKey_Trace.tla",
         "TLA+ pool-identity model with constants extracted from the constructors' signatures at run time; TLC-emitted one-keyword-apart scenarios replayed on real PoolManager/ProxyManager; TLC batch trace validation",
         "The keyword sets (inspect.signature of the pool/connection constructors), PoolKey fields and SSL keyword list are read from the tree under test at run time and become TLC constants; TLC checks on them that every keyword is a key field or rejected, that contexts one keyword apart have distinct keys and that normalisation merges only case/default-port variants, and emits every scenario with the model's expected observation. Each scenario is replayed on a real PoolManager/ProxyManager (constructor defaults, pool_kwargs, request context), and the recorded traces (pool identity, key equality, configuration of the returned pool, defaults untouched) plus seeded random multi-keyword traces are judged by TLC.",
         "Two values per keyword (three for some) chosen by the harness; value equality taken from Python ==/hash; SOCKS constructors only if PySocks is importable; TLC and CPython trusted. Two recorded findings (port 0 treated as unset; retries False == 0 in the key).",
         "§4 C18"),
 "C20": ("Multipart.tla, MC_Multipart.tla, Multipart_Trace.tla",
         "TLA+ Encode/strict Parse round-trip model over a hostile symbol alphabet; TLC-emitted field lists replayed into encode_multipart_formdata byte-for-byte; real outputs lexed to symbols and judged by TLC's Parse",
         "TLC checks exhaustively within the bounds that the strict independent Parse of Encode returns exactly the specified parts (RoundTrip), that the content type names the boundary, that the WHATWG escaping is sound and that no field content can terminate a parameter, add a header or open a part; a canary invariant (the same layout without escaping) must be refuted. Every explored (boundary, field list) is replayed into the real encoder in up to five input shapes and compared byte for byte with the model's encoding; seeded random longer field lists are encoded by the real code, lexed into the spec's symbols and judged by TLC.",
         "Field content limited to the property's hostile alphabet plus a few payload words; the symbol<->bytes lexer is trusted (checked invertible on every emitted body); TLC and CPython trusted.",
         "§4 C20"),
}
NOT_YET = "check not built yet in this session (planned, see DESIGN.md §9); no claim is made"

def main():
    checks = []
    for pid, (eng, tech, text, note, ref) in sorted(CHECKS.items()):
        checks.append({
            "property_id": pid,
            "quick_cmd": f"./check {pid} --tier quick",
            "thorough_cmd": f"./check {pid} --tier thorough",
            "evidence_file": f"/verif/evidence/{pid}.json",
            "replay_cmd_template": f"./check {pid} --replay {{path}}",
            "engine": eng,
            "level_claimed": {"category": "model_checking", "text": text, "design_ref": ref},
            "level_note": note,
            "technique": tech,
        })
    na = [{"property_id": p, "reason": NOT_YET} for p in sorted(TITLES) if p not in CHECKS]
    engines = {}
    for pid, (eng, *_r) in CHECKS.items():
        for e in eng.split(", "):
            engines.setdefault(e, []).append(pid)
    doc = {
        "version": 1,
        "setup_cmd": "./setup",
        "hooks": {"guard": "URLLIB3_VERIF", "enable": "checks export URLLIB3_VERIF=1 (no source hooks are currently needed: all observation goes through public extension points)",
                  "baseline_off_cmd": BASE, "source_commits": [], "add_only": True},
        "engines": [{"name": e, "path": "/verif/spec/" + e, "serves_properties": sorted(ps), "kind_free_text": "TLA+ specification checked with TLC"}
                    for e, ps in sorted(engines.items())] +
                   [{"name": "vh", "path": "/verif/vh", "serves_properties": sorted(CHECKS), "kind_free_text": "Python conformance harness (drives real urllib3 from /repo/src; TLC driver; trace recording)"}],
        "checks": checks,
        "notes": "Model-based verification with explicit TLA+ specifications (see DESIGN.md). exit 2 = machinery failure.",
        "not_applicable": na,
    }
    with open(os.path.join(ROOT, "MANIFEST.json"), "w") as fh:
        json.dump(doc, fh, indent=1)
    try:
        import jsonschema
        jsonschema.validate(doc, json.load(open("/root/.vp/MANIFEST.schema.json")))
        print("MANIFEST.json valid;", len(checks), "checks,", len(na), "not claimed")
    except ImportError:
        print("jsonschema missing; not validated")

if __name__ == "__main__":
    main()
