#!/usr/bin/env python3-vt
"""Generate /verif/MANIFEST.json from the table below and validate it against the schema."""
import json, os, sys
ROOT = os.path.dirname(os.path.dirname(os.path.abspath(__file__)))
TITLES = {json.loads(l)["id"]: json.loads(l)["title"] for l in open(os.path.join(ROOT, "properties.jsonl"))}

BASE = ("cd /repo && /venv/bin/python -m pytest -ra -q -p no:cacheprovider --timeout=900 "
        "--continue-on-collection-errors")

# property -> (engine spec modules, technique, level text, level note, design ref)
CHECKS = {pid: (c["engine"], c["technique"], c["text"], c["note"], c["design_ref"])
          for pid, c in json.load(open(os.path.join(ROOT, "tools", "checks.json"))).items()}
NOT_YET = "check not built yet in this session (planned, see DESIGN.md §9); no claim is made"

def main():
    checks = []
    for pid, (eng, tech, text, note, ref) in sorted(CHECKS.items()):
        checks.append({
            "property_id": pid,
            "quick_cmd": f"./check {pid} --tier quick",
            "thorough_cmd": f"./check {pid} --tier thorough",
            "evidence_file": f"/verif/evidence/{pid}.json",
            "replay_cmd_template": f"./check {pid} --replay {{path}}",
            "engine": eng,
            "level_claimed": {"category": "model_checking", "text": text, "design_ref": ref},
            "level_note": note,
            "technique": tech,
        })
    na = [{"property_id": p, "reason": NOT_YET} for p in sorted(TITLES) if p not in CHECKS]
    engines = {}
    for pid, (eng, *_r) in CHECKS.items():
        for e in eng.split(", "):
            engines.setdefault(e, []).append(pid)
    doc = {
        "version": 1,
        "setup_cmd": "./setup",
        "hooks": {"guard": "URLLIB3_VERIF", "enable": "checks export URLLIB3_VERIF=1 (no source hooks are currently needed: all observation goes through public extension points)",
                  "baseline_off_cmd": BASE, "source_commits": [], "add_only": True},
        "engines": [{"name": e, "path": "/verif/spec/" + e, "serves_properties": sorted(ps), "kind_free_text": "TLA+ specification checked with TLC"}
                    for e, ps in sorted(engines.items())] +
                   [{"name": "vh", "path": "/verif/vh", "serves_properties": sorted(CHECKS), "kind_free_text": "Python conformance harness (drives real urllib3 from /repo/src; TLC driver; trace recording)"}],
        "checks": checks,
        "notes": "Model-based verification with explicit TLA+ specifications (see DESIGN.md). exit 2 = machinery failure.",
        "not_applicable": na,
    }
    with open(os.path.join(ROOT, "MANIFEST.json"), "w") as fh:
        json.dump(doc, fh, indent=1)
    try:
        import jsonschema
        jsonschema.validate(doc, json.load(open("/root/.vp/MANIFEST.schema.json")))
        print("MANIFEST.json valid;", len(checks), "checks,", len(na), "not claimed")
    except ImportError:
        print("jsonschema missing; not validated")

if __name__ == "__main__":
    main()
