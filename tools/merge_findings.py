#!/usr/bin/env python3
"""Merge the per-check staging files known_findings.d/Cxx.json into the one committed known-findings file
(known_findings.json, key "findings").  The growth-stage observations (RESPLIFE.json) stay where they are: they are
not findings of a listed property.  Idempotent; never run by a check."""
import glob, json, os
ROOT = os.path.dirname(os.path.dirname(os.path.abspath(__file__)))
p = os.path.join(ROOT, "known_findings.json"); d = json.load(open(p))
have = {f["id"] for f in d["findings"]}
for f in sorted(glob.glob(os.path.join(ROOT, "known_findings.d", "C[0-9][0-9].json"))):
    for k in json.load(open(f)).get("findings", []):
        if k["id"] in have:
            d["findings"] = [k if x["id"] == k["id"] else x for x in d["findings"]]
        else:
            d["findings"].append(k); have.add(k["id"])
    os.remove(f)
json.dump(d, open(p, "w"), indent=1)
print(len(d["findings"]), "recorded findings:", sorted(have))
