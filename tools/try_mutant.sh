#!/bin/sh
# usage: tools/try_mutant.sh <patch.diff> <Cxx> [tier]  — run a check against a scratch copy of /repo/src
# with the patch applied (never touches /repo; evidence is not overwritten).  Prints the exit code.
set -u
patch="$(readlink -f "$1")"; pid="$2"; tier="${3:-quick}"
scr="$(mktemp -d /tmp/trymut.XXXXXX)"
cp -r /repo/src "$scr/src"
( cd "$scr" && patch -s -p1 < "$patch" ) || { echo "patch failed"; rm -rf "$scr"; exit 2; }
cd /verif
VERIF_REPO_SRC="$scr/src" ./check "$pid" --tier "$tier" > "$scr/out.txt" 2>&1; rc=$?; tail -n 12 "$scr/out.txt"; echo "EXIT=$rc"
rm -rf "$scr"
