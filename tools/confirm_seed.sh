#!/bin/sh
# usage: tools/confirm_seed.sh <dir with patch.diff demo.py> [--no-baseline]
# Confirms, in a fresh scratch worktree: demo passes on pristine, patch applies, demo fails with it,
# pinned suite still passes with it.  Removes the worktree afterwards.  Prints CONFIRMED or REJECTED.
set -u
d="$(readlink -f "$1")"; nb="${2:-}"
wt="$(mktemp -d /tmp/seedwt.XXXXXX)"; rmdir "$wt"
/verif/tools/mkworktree.sh "$wt" >/dev/null || exit 2
res=CONFIRMED
( cd "$d" && PYTHONPATH="$wt/src" timeout 300 /venv/bin/python demo.py >"$wt/.demo0" 2>&1 ); r0=$?
git -C "$wt" apply "$d/patch.diff" || { echo "patch does not apply"; res=REJECTED; }
( cd "$d" && PYTHONPATH="$wt/src" timeout 300 /venv/bin/python demo.py >"$wt/.demo1" 2>&1 ); r1=$?
echo "demo pristine rc=$r0  patched rc=$r1"
[ "$r0" = 0 ] || { res=REJECTED; tail -5 "$wt/.demo0"; }
[ "$r1" != 0 ] || res=REJECTED
tail -3 "$wt/.demo1"
if [ "$nb" != "--no-baseline" ] && [ "$res" = CONFIRMED ]; then
  out="$(/venv/bin/python /verif/tools/baseline.py "$wt" 2>&1 | tail -3)"; echo "$out"
  if ! echo "$out" | grep -q "missing=0"; then   # the pinned suite is flaky under load (hung pytest, timing tests): one retry
    out="$(/venv/bin/python /verif/tools/baseline.py "$wt" 2>&1 | tail -3)"; echo "retry: $out"
  fi
  echo "$out" | grep -q "missing=0" || res=REJECTED
fi
git -C /repo worktree remove --force "$wt"; git -C /repo worktree prune
echo "$res $d"
